package univ

import (
	"testing"
	"verif/model"
)

func TestValuesCount(t *testing.T) {
	v := Values(1, 2, Js(A6...), []string{"a", "b"})
	if len(v) != 96 {
		t.Fatalf("V(1,2)=%d", len(v))
	}
	v = Values(2, 2, Js(A6...), []string{"a", "b"})
	if len(v) != 18726 {
		t.Fatalf("V(2,2)=%d", len(v))
	}
	seen := map[string]bool{}
	for _, x := range v {
		c := model.Canon(x)
		if seen[c] {
			t.Fatalf("dup %s", c)
		}
		seen[c] = true
	}
}

func TestGenUnique(t *testing.T) {
	f := FullFragment()
	g := NewGen(f)
	seen := map[string]bool{}
	rec := &model.Recogniser{}
	total := 0
	for w := 1; w <= 5; w++ {
		ss := g.Sentences(w)
		total += len(ss)
		for _, s := range ss {
			if seen[s] {
				t.Fatalf("duplicate sentence %q", model.Spell(g.Tokens(s), model.Spaced))
			}
			seen[s] = true
			toks := g.Tokens(s)
			if !rec.Accepts(model.Kinds(toks)) {
				t.Fatalf("generated non-sentence %q", model.Spell(toks, model.Spaced))
			}
			if _, strict, err := model.Parse(toks); err != nil || !strict {
				t.Fatalf("P rejects %q: %v", model.Spell(toks, model.Spaced), err)
			}
		}
		t.Logf("w=%d sentences=%d", w, len(ss))
	}
}
