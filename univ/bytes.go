package univ

// ByteSymbols is the alphabet of the byte-string universe B(n): one member per
// lexer character class and per class boundary.
var ByteSymbols = []string{
	"a", "Z", "_", "0", "9", "-", ".", "*", ",", ":", "{", "}", "[", "]", "(", ")", "@", "?", "|", "&", "<", ">", "=", "!",
	"\"", "'", "`", "\\", " ", "\t", "\n", "\r", "#", "~", "/", "u", "\x00", "\x7f",
	"\u0080", "\u0081", "\u00ff", "\u07ff", "\u0800", "\uffff", "\U00010000", "\U0010ffff", "\x80", "\xc0", "\xff", "\xe2\x82",
	// runes >= U+0100 whose low byte is an ASCII letter / digit / underscore (table lookups by truncated rune)
	"\u3042", "\u0141", "\u4e30", "\u015f",
	// characters that Unicode (but not JMESPath) counts as white space
	"\v", "\f", "\u0085", "\u00a0", "\u2028", "\u3000",
	// byte order mark, the replacement character written literally, a printf verb introducer
	"\ufeff", "\ufffd", "%",
}

// PumpUnits are the u / w parts of the pumping family u^k v w^k.
var PumpUnits = append(append([]string{}, ByteSymbols...), "[?", "[]", "||", "&&", "==", "a.", "[0]", "a|", "!", "&", "[*]", "a,", "a:a,", "`1`", "'a'", "\"a\"", "\\\\", "\\'", "\\`", "-1", "a[", "a(")

// PumpPairs are (u, w) pairs that nest (the ones worth pumping to the maximum length).
var PumpPairs = [][2]string{
	{"(", ")"}, {"[", "]"}, {"{a:", "}"}, {"[?", "]"}, {"a(", ")"}, {"!", ""}, {"&", ""}, {"a.", ""}, {"", ".a"}, {"", "[0]"}, {"", "[]"}, {"", "[*]"},
	{"", "||a"}, {"", "&&a"}, {"", "|a"}, {"", "==a"}, {"a", ""}, {"0", ""}, {"-", ""}, {"[", ""}, {"(", ""}, {"", ")"}, {"", "]"}, {"[a,", "]"}, {"`", "`"}, {"'", "'"}, {"\"", "\""},
	{"\\", ""}, {"\\'", ""}, {"'\\", "'"}, {"`\\", "`"}, {"\"\\", "\""}, {" ", " "}, {"\u0080", ""}, {"\xff", ""}, {"", ":"}, {"[", ":]"}, {"[:", "]"}, {"*.", ""}, {"", ".*"}, {"@", ""}, {"a,", ""},
	{"[[", "]]"}, {"[?a==", "]"}, {"not_null(", ")"}, {"{a:{a:", "}}"}, {"", "[?a]"}, {"", "[:]"}, {"", "[::-1]"},
}
