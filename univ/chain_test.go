package univ

import "testing"

func TestChainCount(t *testing.T) {
	g := NewGen(ChainFragment())
	for w := 1; w <= 8; w++ {
		t.Logf("w=%d %d", w, len(g.Sentences(w)))
	}
}
