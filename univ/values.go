package univ

import (
	"encoding/json"
	"sort"
)

// J parses JSON text into a model value (panics on bad text; used for constants).
func J(s string) interface{} {
	var v interface{}
	if err := json.Unmarshal([]byte(s), &v); err != nil {
		panic("bad JSON constant " + s + ": " + err.Error())
	}
	return v
}

// Js parses several JSON texts.
func Js(ss ...string) []interface{} {
	out := make([]interface{}, len(ss))
	for i, s := range ss {
		out[i] = J(s)
	}
	return out
}

// A6 has one representative of each JSON type.
var A6 = []string{`null`, `false`, `1`, `"a"`, `[]`, `{}`}

// Values enumerates V(d,w,A,K): all JSON values of nesting depth ≤ d, arrays of
// length 1..w, objects over the non-empty subsets of K, leaves from A (atoms may
// include the empty containers). Simplest first, no duplicates (provided A has none).
func Values(d, w int, atoms []interface{}, keys []string) []interface{} {
	if d == 0 {
		return append([]interface{}{}, atoms...)
	}
	sub := Values(d-1, w, atoms, keys)
	out := append([]interface{}{}, atoms...)
	// arrays
	var arr func(prefix []interface{}, n int)
	arr = func(prefix []interface{}, n int) {
		if n == 0 {
			out = append(out, append([]interface{}{}, prefix...))
			return
		}
		for _, e := range sub {
			arr(append(prefix, e), n-1)
		}
	}
	for n := 1; n <= w; n++ {
		arr(nil, n)
	}
	// objects
	ks := append([]string{}, keys...)
	sort.Strings(ks)
	for mask := 1; mask < 1<<uint(len(ks)); mask++ {
		var sel []string
		for i, k := range ks {
			if mask&(1<<uint(i)) != 0 {
				sel = append(sel, k)
			}
		}
		var obj func(i int, cur map[string]interface{})
		obj = func(i int, cur map[string]interface{}) {
			if i == len(sel) {
				m := make(map[string]interface{}, len(cur))
				for k, v := range cur {
					m[k] = v
				}
				out = append(out, m)
				return
			}
			for _, e := range sub {
				cur[sel[i]] = e
				obj(i+1, cur)
			}
			delete(cur, sel[i])
		}
		obj(0, map[string]interface{}{})
	}
	return out
}
