package univ

import "verif/model"

func uid(s string) model.Tok { return model.T(model.UID, s) }
func qid(s string) model.Tok { return model.T(model.QID, s) }
func num(s string) model.Tok { return model.T(model.NUM, s) }
func lit(s string) model.Tok { return model.T(model.LIT, "`"+s+"`") }
func raw(s string) model.Tok { return model.T(model.RAW, "'"+s+"'") }
func cmp(s string) model.Tok { return model.T(model.CMP, s) }

var colon = model.Fixed(model.COLON)
var cur = model.Fixed(model.CUR)

// FullFragment has one spelling per token kind: every production of the
// grammar, smallest possible alphabet (used for the blind completeness check
// and for the grammar/precedence checks).
func FullFragment() *Fragment {
	return &Fragment{
		Idents: []model.Tok{uid("a"), qid(`"b"`)},
		Funcs:  []model.Tok{uid("f")},
		Leaves: []model.Tok{lit("1"), raw("r"), cur},
		Nums:   []model.Tok{num("0")},
		Slices: [][]model.Tok{
			{colon}, {num("0"), colon}, {colon, num("0")}, {num("0"), colon, num("0")},
			{colon, colon}, {num("0"), colon, colon}, {colon, num("0"), colon}, {colon, colon, num("0")},
			{num("0"), colon, num("0"), colon}, {num("0"), colon, colon, num("0")}, {colon, num("0"), colon, num("0")},
			{num("0"), colon, num("0"), colon, num("0")},
		},
		Cmps: []model.Tok{cmp("==")},
		Star: true, WildIdx: true, Flatten: true, Filter: true, Dot: true, Pipe: true, Or: true, And: true,
		Not: true, Paren: true, MaxList: 8, MaxHash: 8, MaxArgs: 8, MinArgs: 0, ExpRef: true,
	}
}

// T builds a token from its spelling (single token).
func Tk(text string) model.Tok {
	toks, err := model.Lex(text)
	if err != nil || len(toks) != 1 {
		panic("not a single token: " + text)
	}
	return toks[0]
}

// Tks builds several tokens.
func Tks(texts ...string) []model.Tok {
	out := make([]model.Tok, len(texts))
	for i, t := range texts {
		out[i] = Tk(t)
	}
	return out
}

// CoreFragment is X_core (C01): fields, @, literals of all six JSON types, raw
// strings, sub-expressions, indices, parentheses, pipes, multi-select lists and hashes.
func CoreFragment() *Fragment {
	return &Fragment{
		Idents: Tks("a", "b", `""`),
		Leaves: Tks("@", "`null`", "`false`", "`1`", "`\"a\"`", "`[1,[2]]`", "`{\"a\":{\"b\":2}}`", "'a'"),
		Nums:   Tks("0", "1", "2", "-1", "-2", "-3"),
		Dot:    true, Pipe: true, Paren: true, MaxList: 2, MaxHash: 2,
		Weight: StructuralWeight,
	}
}

// ProjFragment is X_proj (C02): every projection kind, chained and nested, with
// right-hand sides that map null to non-null, all projection terminators and
// truthiness/comparison filter conditions.
func ProjFragment() *Fragment {
	return &Fragment{
		Idents: Tks("a", "b"),
		Funcs:  Tks("type", "not_null", "to_array"),
		Leaves: Tks("@", "`1`", "`0`"),
		Nums:   Tks("0", "-1"),
		Slices: [][]model.Tok{Tks(":"), Tks("1", ":"), Tks(":", ":", "-1"), Tks(":", "1"), Tks(":", ":", "-2"), Tks(":", ":", "2")},
		Cmps:   Tks("==", ">"),
		Star:   true, WildIdx: true, Flatten: true, Filter: true, Dot: true, Pipe: true, Or: true, And: true,
		Not: true, Paren: true, MaxList: 2, MaxHash: 1, MaxArgs: 2, MinArgs: 1,
		Weight: StructuralWeight,
	}
}

// HasProjection reports whether the AST contains a projection node.
func HasProjection(n *model.Node) bool {
	switch n.Type {
	case model.NProjection, model.NValueProjection, model.NFilterProjection, model.NFlatten, model.NSlice:
		return true
	}
	for _, c := range n.Children {
		if HasProjection(c) {
			return true
		}
	}
	return false
}

// Lx lexes expression text into tokens (panics on malformed text).
func Lx(text string) []model.Tok {
	toks, err := model.Lex(text)
	if err != nil {
		panic("bad expression text " + text + ": " + err.Error())
	}
	return toks
}

// LogicFragment (C07): all nestings of ||, &&, !, the six comparators and
// parentheses over three field names.
func LogicFragment() *Fragment {
	return &Fragment{
		Idents: Tks("a", "b", "c"),
		Cmps:   Tks("==", "!=", "<", "<=", ">", ">="),
		Or:     true, And: true, Not: true, Paren: true,
		Weight: StructuralWeight,
	}
}

// ErrFragment (C11): every construct as a one-hole context around erroring
// sub-expressions (the compounds).
func ErrFragment(compounds []string) *Fragment {
	f := &Fragment{
		Idents: Tks("a", "b"),
		Funcs:  Tks("not_null", "to_array", "map", "sort_by", "length"),
		Leaves: Tks("@", "`1`"),
		Nums:   Tks("0"),
		Slices: [][]model.Tok{Tks(":")},
		Cmps:   Tks("==", "<"),
		Star:   true, WildIdx: true, Flatten: true, Filter: true, Dot: true, Pipe: true, Or: true, And: true,
		Not: true, Paren: true, MaxList: 2, MaxHash: 2, MaxArgs: 2, MinArgs: 1, ExpRef: true,
		Weight: StructuralWeight,
	}
	for _, c := range compounds {
		f.Compounds = append(f.Compounds, Lx(c))
	}
	// erroring calls that can also stand after a dot (evaluated against the left-hand value)
	f.SubCompounds = [][]model.Tok{Lx("abs(@)"), Lx("nosuch(@)")}
	return f
}

// FuncFragment: every built-in with every argument shape over two fields,
// literals and expression references (used by C16 / C05 / C06).
func FuncFragment(names []string) *Fragment {
	f := &Fragment{
		Idents: Tks("a", "b"),
		Leaves: Tks("@", "`1`", "`\"a\"`", "`[]`", "`{}`", "`null`"),
		Nums:   Tks("0"),
		Dot:    true, WildIdx: true, Flatten: true, Pipe: true, MaxList: 1,
		MaxArgs: 3, MinArgs: 0, ExpRef: true,
		Weight: StructuralWeight,
	}
	for _, n := range names {
		f.Funcs = append(f.Funcs, model.T(model.UID, n))
	}
	return f
}

// MixedFragment: the full node alphabet with a small leaf alphabet and no bare
// expression references (C15, C06, C12, C13).
func MixedFragment(extraLeaves ...string) *Fragment {
	f := &Fragment{
		Idents: Tks("a", "b"),
		Funcs:  Tks("length", "keys", "to_array", "sort_by", "not_null"),
		Leaves: Tks("@", "`1`", "`[2,1]`"),
		Nums:   Tks("0", "-1"),
		Slices: [][]model.Tok{Tks(":", ":", "-1")},
		Cmps:   Tks("==", "<"),
		Star:   true, WildIdx: true, Flatten: true, Filter: true, Dot: true, Pipe: true, Or: true, And: true,
		Not: true, Paren: true, MaxList: 2, MaxHash: 1, MaxArgs: 2, MinArgs: 1, ExpRef: true,
		Weight: StructuralWeight,
	}
	for _, l := range extraLeaves {
		f.Leaves = append(f.Leaves, model.T(model.UID, l))
	}
	return f
}

// OpsFragment is X_ops (C03): every operator over single-letter leaves.
func OpsFragment() *Fragment {
	return &Fragment{
		Idents: Tks("a", "b"),
		Funcs:  Tks("not_null", "sort_by"),
		Leaves: Tks("@", "`1`", "'r'"),
		Nums:   Tks("0"),
		Slices: [][]model.Tok{Tks(":"), Tks("1", ":"), Tks(":", ":", "-1")},
		Cmps:   Tks("==", "<"),
		Star:   true, WildIdx: true, Flatten: true, Filter: true, Dot: true, Pipe: true, Or: true, And: true,
		Not: true, Paren: true, MaxList: 2, MaxHash: 2, MaxArgs: 2, MinArgs: 1, ExpRef: true,
		Weight: StructuralWeight,
	}
}

// ChainFragment: long postfix chains (dot, index, slice, [*], .*, [], filters
// with fixed conditions) with pipes and || as terminators — the place where
// projection scope is decided. Small alphabet, so chains of 5-6 steps are reached.
func ChainFragment() *Fragment {
	return &Fragment{
		Idents:      Tks("a"),
		Leaves:      Tks("@"),
		Nums:        Tks("0"),
		Slices:      [][]model.Tok{Tks("1", ":"), Tks(":", "1")},
		Star:        true, WildIdx: true, Flatten: true, Filter: true, Dot: true, Pipe: true, Or: true, Paren: true,
		FilterConds: [][]model.Tok{Tks("a"), Tks("@")},
		SubCompounds: [][]model.Tok{Lx("type(@)")},
		MaxList:     1,
		Weight:      StructuralWeight,
	}
}
