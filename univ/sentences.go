// Package univ holds the finite universes the checks enumerate: JSON values,
// grammatical sentences of fragments (as token sequences), blind token
// sequences, byte strings.
package univ

import (
	"verif/model"
)

// Fragment describes a sub-grammar of JMESPath with a small leaf alphabet.
// Sentences are generated as token sequences by a layered (string-level
// unambiguous) grammar:
//
//	Pipe → Or | Pipe '|' Or          Or → And | Or '||' And      And → Cmp | And '&&' Cmp
//	Cmp → Unary | Cmp CMP Unary      Unary → Postfix | '!' Unary
//	Postfix → Primary | Postfix '.' SubRHS | Postfix Bracket
//	Primary → Ident | '*' | LIT | RAW | '@' | MSList | MSHash | Func | '(' Pipe ')' | Bracket
//	SubRHS → Ident | '*' | MSList | MSHash | Func
//	Bracket → '[' NUM ']' | '[' '*' ']' | '[' Slice ']' | '[]' | '[?' Pipe ']'
//
// The generator is only a producer; its completeness is checked mechanically
// against the recogniser G (see CheckComplete).
type Fragment struct {
	Idents  []model.Tok   // UID / QID usable as field names and hash keys
	Funcs   []model.Tok   // UID usable as callee
	Leaves  []model.Tok   // LIT, RAW, CUR tokens usable as primaries
	// Compounds are multi-token primaries of weight 1 (self-delimiting: calls or
	// parenthesised expressions), e.g. the erroring sub-expressions of C11.
	Compounds [][]model.Tok
	// SubCompounds are multi-token items of weight 1 usable both as primaries and
	// after a dot (function calls such as type(@)).
	SubCompounds [][]model.Tok
	Nums    []model.Tok   // NUM usable as index
	Slices  [][]model.Tok // token sequences allowed between '[' and ']' as slices
	Cmps    []model.Tok
	Star    bool // '*' as primary and after a dot
	WildIdx bool // [*]
	Flatten bool
	Filter  bool
	// FilterConds, if non-nil, restricts filter conditions to these token sequences
	// (otherwise any generated expression is a condition).
	FilterConds [][]model.Tok
	Dot     bool
	Pipe    bool
	Or      bool
	And     bool
	Not     bool
	Paren   bool
	MaxList int  // multi-select list members (0 = no lists)
	MaxHash int  // multi-select hash pairs
	MaxArgs int  // function arguments (used when Funcs is non-empty)
	MinArgs int  // smallest argument count generated
	ExpRef  bool // '&' Pipe as function argument
	// AmpAnywhere: '&' as a prefix operator in any operand position (outside the
	// strict grammar, gap G1; used by C05 only: such input must still not panic).
	AmpAnywhere bool
	// Weight of a token; nil means every token weighs 1.
	Weight func(model.Tok) int
}

type gnt uint8

const (
	gPipe gnt = iota
	gOr
	gAnd
	gCmp
	gUnary
	gPostfix
	gPrimary
	gSubRHS
	gBracket
	gArg
)

type gkey struct {
	n gnt
	w int
}

// Gen enumerates sentences of a fragment.
type Gen struct {
	F    *Fragment
	syms []model.Tok
	ix   map[model.Tok]byte
	memo map[gkey][]string
}

// NewGen prepares a generator.
func NewGen(f *Fragment) *Gen {
	return &Gen{F: f, ix: map[model.Tok]byte{}, memo: map[gkey][]string{}}
}

func (g *Gen) sym(t model.Tok) string {
	if i, ok := g.ix[t]; ok {
		return string([]byte{i})
	}
	if len(g.syms) >= 255 {
		panic("alphabet too large")
	}
	i := byte(len(g.syms))
	g.syms = append(g.syms, t)
	g.ix[t] = i
	return string([]byte{i})
}

func (g *Gen) w(t model.Tok) int {
	if g.F.Weight == nil {
		return 1
	}
	return g.F.Weight(t)
}

func (g *Gen) fx(k model.Kind) (string, int) {
	t := model.Fixed(k)
	return g.sym(t), g.w(t)
}

// Tokens decodes a generated sentence.
func (g *Gen) Tokens(s string) []model.Tok {
	out := make([]model.Tok, len(s))
	for i := 0; i < len(s); i++ {
		out[i] = g.syms[s[i]]
	}
	return out
}

// Sentences returns all sentences of weight exactly w (simplest first within the weight).
func (g *Gen) Sentences(w int) []string { return g.gen(gPipe, w) }

// binary: left-recursive layer  N → Lower | N op Lower
func (g *Gen) binary(n, lower gnt, w int, ops []model.Tok) []string {
	out := append([]string{}, g.gen(lower, w)...)
	for _, op := range ops {
		os, ow := g.sym(op), g.w(op)
		for w1 := 1; w1 <= w-ow-1; w1++ {
			ls := g.gen(n, w1)
			if len(ls) == 0 {
				continue
			}
			rs := g.gen(lower, w-ow-w1)
			for _, l := range ls {
				for _, r := range rs {
					out = append(out, l+os+r)
				}
			}
		}
	}
	return out
}

// seqs enumerates item (sep item)* with between min and max items and total weight w.
func (g *Gen) seqs(item gnt, sep string, sepW, min, max, w int) []string {
	var out []string
	var rec func(prefix string, count, left int)
	rec = func(prefix string, count, left int) {
		// choose the next item
		for wi := 1; wi <= left; wi++ {
			rest := left - wi
			items := g.gen(item, wi)
			if len(items) == 0 {
				continue
			}
			if rest == 0 {
				if count+1 >= min {
					for _, it := range items {
						out = append(out, prefix+it)
					}
				}
				continue
			}
			if count+1 < max && rest-sepW >= 1 {
				for _, it := range items {
					rec(prefix+it+sep, count+1, rest-sepW)
				}
			}
		}
	}
	if max >= 1 {
		rec("", 0, w)
	}
	return out
}

func (g *Gen) gen(n gnt, w int) []string {
	if w <= 0 {
		return nil
	}
	key := gkey{n, w}
	if r, ok := g.memo[key]; ok {
		return r
	}
	g.memo[key] = nil
	f := g.F
	var out []string
	switch n {
	case gPipe:
		if f.Pipe {
			out = g.binary(gPipe, gOr, w, []model.Tok{model.Fixed(model.PIPE)})
		} else {
			out = g.gen(gOr, w)
		}
	case gOr:
		if f.Or {
			out = g.binary(gOr, gAnd, w, []model.Tok{model.Fixed(model.OR)})
		} else {
			out = g.gen(gAnd, w)
		}
	case gAnd:
		if f.And {
			out = g.binary(gAnd, gCmp, w, []model.Tok{model.Fixed(model.AND)})
		} else {
			out = g.gen(gCmp, w)
		}
	case gCmp:
		if len(f.Cmps) > 0 {
			out = g.binary(gCmp, gUnary, w, f.Cmps)
		} else {
			out = g.gen(gUnary, w)
		}
	case gUnary:
		out = append(out, g.gen(gPostfix, w)...)
		if f.Not {
			ns, nw := g.fx(model.NOT)
			for _, u := range g.gen(gUnary, w-nw) {
				out = append(out, ns+u)
			}
		}
		if f.AmpAnywhere {
			as, aw := g.fx(model.AMP)
			for _, u := range g.gen(gUnary, w-aw) {
				out = append(out, as+u)
			}
		}
	case gPostfix:
		out = append(out, g.gen(gPrimary, w)...)
		ds, dw := g.fx(model.DOT)
		for w1 := 1; w1 < w; w1++ {
			ls := g.gen(gPostfix, w1)
			if len(ls) == 0 {
				continue
			}
			if f.Dot && w-w1-dw >= 1 {
				for _, r := range g.gen(gSubRHS, w-w1-dw) {
					for _, l := range ls {
						out = append(out, l+ds+r)
					}
				}
			}
			for _, r := range g.gen(gBracket, w-w1) {
				for _, l := range ls {
					out = append(out, l+r)
				}
			}
		}
	case gPrimary, gSubRHS:
		for _, t := range f.Idents {
			if g.w(t) == w {
				out = append(out, g.sym(t))
			}
		}
		if f.Star {
			if s, sw := g.fx(model.STAR); sw == w {
				out = append(out, s)
			}
		}
		if w == 1 {
			for _, c := range f.SubCompounds {
				body := ""
				for _, t := range c {
					body += g.sym(t)
				}
				out = append(out, body)
			}
		}
		if n == gPrimary {
			for _, t := range f.Leaves {
				if g.w(t) == w {
					out = append(out, g.sym(t))
				}
			}
			if w == 1 {
				for _, c := range f.Compounds {
					body := ""
					for _, t := range c {
						body += g.sym(t)
					}
					out = append(out, body)
				}
			}
			if f.Paren {
				lp, lw := g.fx(model.LPAREN)
				rp, rw := g.fx(model.RPAREN)
				for _, e := range g.gen(gPipe, w-lw-rw) {
					out = append(out, lp+e+rp)
				}
			}
			out = append(out, g.gen(gBracket, w)...)
		}
		if f.MaxList > 0 {
			lb, lw := g.fx(model.LBRACKET)
			rb, rw := g.fx(model.RBRACKET)
			cs, cw := g.fx(model.COMMA)
			star, _ := g.fx(model.STAR)
			for _, body := range g.seqs(gPipe, cs, cw, 1, f.MaxList, w-lw-rw) {
				if n == gPrimary && body == star {
					continue // "[*]" at expression start is the bracket specifier
				}
				out = append(out, lb+body+rb)
			}
		}
		if f.MaxHash > 0 {
			out = append(out, g.hashes(w)...)
		}
		if len(f.Funcs) > 0 {
			lp, lw := g.fx(model.LPAREN)
			rp, rw := g.fx(model.RPAREN)
			cs, cw := g.fx(model.COMMA)
			for _, fn := range f.Funcs {
				left := w - g.w(fn) - lw - rw
				if left == 0 && f.MinArgs == 0 {
					out = append(out, g.sym(fn)+lp+rp)
				}
				if left > 0 {
					min := f.MinArgs
					if min < 1 {
						min = 1
					}
					for _, body := range g.seqs(gArg, cs, cw, min, f.MaxArgs, left) {
						out = append(out, g.sym(fn)+lp+body+rp)
					}
				}
			}
		}
	case gArg:
		out = append(out, g.gen(gPipe, w)...)
		if f.ExpRef {
			as, aw := g.fx(model.AMP)
			for _, e := range g.gen(gPipe, w-aw) {
				out = append(out, as+e)
			}
		}
	case gBracket:
		lb, lw := g.fx(model.LBRACKET)
		rb, rw := g.fx(model.RBRACKET)
		for _, t := range f.Nums {
			if lw+g.w(t)+rw == w {
				out = append(out, lb+g.sym(t)+rb)
			}
		}
		if f.WildIdx {
			if s, sw := g.fx(model.STAR); lw+sw+rw == w {
				out = append(out, lb+s+rb)
			}
		}
		for _, sl := range f.Slices {
			tw := lw + rw
			body := ""
			for _, t := range sl {
				tw += g.w(t)
				body += g.sym(t)
			}
			if tw == w {
				out = append(out, lb+body+rb)
			}
		}
		if f.Flatten {
			if s, sw := g.fx(model.FLATTEN); sw == w {
				out = append(out, s)
			}
		}
		if f.Filter && f.FilterConds != nil {
			fs, fw := g.fx(model.FILTER)
			for _, c := range f.FilterConds {
				tw := fw + rw
				body := ""
				for _, t := range c {
					tw += g.w(t)
					body += g.sym(t)
				}
				if tw == w {
					out = append(out, fs+body+rb)
				}
			}
		} else if f.Filter {
			fs, fw := g.fx(model.FILTER)
			for _, e := range g.gen(gPipe, w-fw-rw) {
				out = append(out, fs+e+rb)
			}
		}
	}
	g.memo[key] = out
	return out
}

// hashes: '{' Ident ':' Pipe (',' Ident ':' Pipe)* '}'
func (g *Gen) hashes(w int) []string {
	f := g.F
	lb, lw := g.fx(model.LBRACE)
	rb, rw := g.fx(model.RBRACE)
	cs, cw := g.fx(model.COMMA)
	col, colw := g.fx(model.COLON)
	var out []string
	var rec func(prefix string, count, left int)
	rec = func(prefix string, count, left int) {
		for _, id := range f.Idents {
			l2 := left - g.w(id) - colw
			for wi := 1; wi <= l2; wi++ {
				rest := l2 - wi
				vals := g.gen(gPipe, wi)
				if len(vals) == 0 {
					continue
				}
				if rest == 0 {
					for _, v := range vals {
						out = append(out, lb+prefix+g.sym(id)+col+v+rb)
					}
					continue
				}
				if count+1 < f.MaxHash && rest-cw >= 1 {
					for _, v := range vals {
						rec(prefix+g.sym(id)+col+v+cs, count+1, rest-cw)
					}
				}
			}
		}
	}
	rec("", 0, w-lw-rw)
	return out
}

// StructuralWeight makes closers and separators free so that the weight of a
// sentence approximates the number of AST nodes.
func StructuralWeight(t model.Tok) int {
	switch t.Kind {
	case model.RPAREN, model.RBRACKET, model.RBRACE, model.COMMA, model.COLON:
		return 0
	}
	return 1
}
