package main

import (
	"encoding/json"
	"fmt"
	"strings"
	"sync/atomic"

	"verif/harness"
	"verif/impl"
	"verif/model"
	"verif/univ"
)

func init() { register("C15", checkC15) }

// holeAtRoot reports whether the single HOLE leaf of the context is evaluated
// against the root document: its path from the root passes only through operand
// positions that keep the current node (operands of ||, &&, comparators, !,
// multi-select members, hash values, function arguments) or through the LEFT
// side of ., [...], projections and |.
func holeAtRoot(n *model.Node) (found bool, root bool) {
	if n.Type == model.NField && n.Name == "HOLE" {
		return true, true
	}
	for i, c := range n.Children {
		f, ok := holeAtRoot(c)
		if !f {
			continue
		}
		switch n.Type {
		case model.NOr, model.NAnd, model.NCmp, model.NNot, model.NMultiList, model.NMultiHash, model.NKeyVal, model.NFunction:
			return true, ok
		case model.NSub, model.NIndexExpr, model.NPipe, model.NProjection, model.NValueProjection, model.NFilterProjection, model.NFlatten:
			return true, ok && i == 0
		}
		return true, false // expression-reference bodies etc.
	}
	return false, false
}

func countHoles(toks []model.Tok) int {
	n := 0
	for _, t := range toks {
		if t.Kind == model.UID && t.Text == "HOLE" {
			n++
		}
	}
	return n
}

func substitute(ctx []model.Tok, repl []model.Tok) []model.Tok {
	out := make([]model.Tok, 0, len(ctx)+len(repl))
	for _, t := range ctx {
		if t.Kind == model.UID && t.Text == "HOLE" {
			out = append(out, repl...)
		} else {
			out = append(out, t)
		}
	}
	return out
}

func implSame(a interface{}, aerr error, b interface{}, berr error) bool {
	if (aerr != nil) != (berr != nil) {
		return false
	}
	if aerr != nil {
		return true
	}
	if jsonDefect(a, "") != "" || jsonDefect(b, "") != "" {
		// not JSON data: C16's business; compare renderings
		return model.Show(a) == model.Show(b)
	}
	return model.DeepEqual(a, b)
}

func checkC15(r *harness.Run) harness.Coverage {
	r.Rule = "(1) all pairs (A,B) of sentences of the mixed fragment (every node type, no bare expression references) up to the weight bound x documents: Search(\"A | B\", d) vs Search(B, Search(A, d)), error iff one of the steps errors; (2) every context C[.] up to the weight bound whose hole is evaluated against the root (decided on the canonical AST) x hole expressions E x documents: Search(C[(E)], d) vs Search(C[literal of Search(E, d)], d). Differential oracle on the implementation itself; pairs whose reference outcome depends on object-member order are compared only through C01/C02 (counted as gap). Non-trivial = the composed expression has a non-null or error outcome; distinct by (A, B, d) / (C, E, d)"
	r.Assumptions = []string{"the reference evaluator is used only to classify order-dependent cases (skipped) and non-trivial ones", "fresh document copies for every call"}
	wA, wC, wE := 3, 4, 2
	if r.Thorough() {
		wA, wC, wE = 3, 4, 3
	}
	docs := univ.Values(1, 2, univ.Js(univ.A6...), []string{"a", "b"})
	docs = append(docs, univ.Js(`{"a":[{"a":2,"b":[3]},{"a":1,"b":[]}],"b":{"a":[2,1],"b":"x"}}`, `[[2,1],[{"a":1}],"s"]`, `[{"a":[1,2]},{"a":[3]}]`, `{"a":{"a":{"a":1}},"b":[[1],[2]]}`)...)
	if !r.Thorough() {
		docs = append(append([]interface{}{}, docs[:40]...), docs[len(docs)-4:]...)
	}
	// operands that are equal / ordered either way as numbers, equal as strings and arrays
	docs = append(docs, univ.Js(`{"a":1,"b":1}`, `{"a":1,"b":2}`, `{"a":2,"b":1}`, `{"a":"x","b":"x"}`, `{"a":[1],"b":[1]}`, `{"a":2,"b":{"a":2}}`,
		`{"a":{"x":1},"b":{"y":2}}`, `{"a":[3,1,2],"b":[2,1]}`, `{"a":[{"k":2},{"k":1}],"b":["b","a"]}`)...)
	g := univ.NewGen(univ.MixedFragment())
	A := buildExprs(g, wA, nil)
	var pairs, nontriv, gaps, steps int64
	pipeTok := model.Fixed(model.PIPE)
	// ---- (1) pipe law
	harness.Parallel(len(A), func(w, ai int) {
		a := &A[ai]
		jpA, cerr, pn := impl.Compile(a.text)
		if pn != nil || cerr != nil {
			r.Report(harness.Violation{Kind: "rejected-grammatical", Signature: "compile-error:" + a.text, Input: map[string]interface{}{"expression": a.text}, Expected: "compiles", Observed: "error or panic"})
			return
		}
		for bi := range A {
			b := &A[bi]
			toks := append(append(append([]model.Tok{}, a.toks...), pipeTok), b.toks...)
			text := model.Spell(toks, model.Tight)
			ast, _, perr := model.Parse(toks)
			if perr != nil {
				harness.Fatal("model rejects composed pipe %q: %v", text, perr)
			}
			jpAB, cerr, pn := impl.Compile(text)
			jpB, cerrB, pnB := impl.Compile(b.text)
			if pn != nil || cerr != nil || pnB != nil || cerrB != nil {
				r.Report(harness.Violation{Kind: "rejected-grammatical", Signature: "compile-error:" + text, Input: map[string]interface{}{"expression": text}, Expected: "compiles", Observed: "error or panic"})
				continue
			}
			for _, d := range docs {
				var st int64
				outs := model.Outcomes(ast, d, &st)
				atomic.AddInt64(&steps, st)
				atomic.AddInt64(&pairs, 1)
				if len(outs) != 1 || outs[0].Err == model.ErrGap {
					atomic.AddInt64(&gaps, 1)
					continue
				}
				if outs[0].Err != nil || outs[0].Val != nil {
					atomic.AddInt64(&nontriv, 1)
				}
				lhs, lerr, lpn := impl.Search(jpAB, model.Copy(d))
				mid, merr, mpn := impl.Search(jpA, model.Copy(d))
				if lpn != nil || mpn != nil {
					continue // panics are C05's business
				}
				var rhs interface{}
				rerr := merr
				if merr == nil {
					var rpn *impl.Panic
					rhs, rerr, rpn = impl.Search(jpB, mid)
					if rpn != nil {
						continue
					}
				}
				if !implSame(lhs, lerr, rhs, rerr) {
					obs := "Search(A|B) = " + showRes(lhs, lerr) + " but Search(B, Search(A)) = " + showRes(rhs, rerr) + " with Search(A) = " + showRes(mid, merr)
					r.Report(harness.Violation{Kind: "wrong-value", Signature: "pipe-law:" + text,
						Input: map[string]interface{}{"expression": text, "A": a.text, "B": b.text, "document": d}, Expected: "equal results, error iff a step errors", Observed: obs})
					break
				}
			}
		}
	})
	// ---- (1b) pipe law for call | selector idioms (the shapes a parser or interpreter is tempted to rewrite into
	// one fused operation: "sort_by(..) | [-1]" is NOT max_by when keys tie), on documents with tied keys
	{
		idiomDocs := univ.Js(`{"a":[{"k":2,"t":0},{"k":1,"t":1},{"k":2,"t":2},{"k":1,"t":3}],"b":[3,1,3,1]}`, `{"a":[{"k":"x","t":0},{"k":"x","t":1}],"b":["b","a","b"]}`, `{"a":[],"b":[]}`, `{"a":[{"k":1,"t":0}],"b":[1]}`, `{"a":null,"b":{"k":1}}`)
		lefts := []string{"sort_by(a, &k)", "sort_by(a, &t)", "sort(b)", "reverse(b)", "reverse(a)", "max_by(a, &k)", "min_by(a, &k)", "map(&k, a)", "a[*].k", "a[?k == `2`]", "a[?k]", "b[?@ > `1`]", "to_array(b)", "keys(b)", "values(b)",
			"not_null(a, b)", "a[::-1]", "b[1:]", "[a, b]", "merge(b, b)", "a[].t", "sort_by(a, &k)[*].t", "reverse(sort_by(a, &k))"}
		rights := []string{"[0]", "[-1]", "[1]", "[-2]", "[*]", "[]", "[?@]", "[::-1]", "[:1]", "[-1:]", "length(@)", "[0].t", "[-1].t", "[*].t", "max_by(@, &t)", "reverse(@)", "[0] || `9`", "@", "[?t > `0`] | [0]", "sort(@)", "max(@)", "min(@)"}
		// (1c) pumped stages: one construct repeated k times (nested or in a row) on either side of the pipe; k from
		// the fixed size list plus the integer literals of the current tree and their neighbours
		kmax := 600
		if r.Thorough() {
			kmax = 2100
		}
		ks := pumpKs(kmax)
		var pumpedStages []string
		for _, e := range append(pumpExprs(pumpCore, ks), pumpExprs(pumpProj[:8], ks)...) {
			pumpedStages = append(pumpedStages, e.text)
		}
		r.Note("pumped_pipe_stages", len(pumpedStages))
		nIdiomL, nIdiomR := len(lefts), len(rights)
		lefts = append(lefts, pumpedStages...)
		rights = append(rights, pumpedStages...)
		for ai, a := range lefts {
			jpA, cerrA, pnA := impl.Compile(a)
			if cerrA != nil || pnA != nil {
				continue
			}
			for bi, b := range rights {
				if ai >= nIdiomL && bi >= nIdiomR {
					break // pumped x pumped is not needed: every pumped stage meets every idiom on the other side
				}
				if ai < nIdiomL && bi >= nIdiomR && ai%6 != 0 {
					continue // pumped right-hand stages after every 6th idiom (and after every pumped stage's own base below)
				}
				if ai >= nIdiomL && bi%5 != 0 {
					continue
				}
				text := a + " | " + b
				jpAB, cerr, pn := impl.Compile(text)
				jpB, cerrB, pnB := impl.Compile(b)
				if pnB != nil || cerrB != nil {
					continue
				}
				if pn != nil || cerr != nil {
					// both stages compile on their own, so their composition is a sentence too
					r.Report(harness.Violation{Kind: "rejected-grammatical", Signature: "pipe-law-compile:" + shorten(text, 80),
						Input: map[string]interface{}{"expression": shorten(text, 300), "A": shorten(a, 150), "B": shorten(b, 150), "bytes": len(text)}, Expected: "A and B compile, so \"A | B\" compiles", Observed: fmt.Sprint(cerr, pn)})
					continue
				}
				for _, d := range idiomDocs {
					atomic.AddInt64(&pairs, 1)
					atomic.AddInt64(&nontriv, 1)
					lhs, lerr, lpn := impl.Search(jpAB, model.Copy(d))
					mid, merr, mpn := impl.Search(jpA, model.Copy(d))
					if lpn != nil || mpn != nil {
						continue
					}
					var rhs interface{}
					rerr := merr
					if merr == nil {
						var rpn *impl.Panic
						rhs, rerr, rpn = impl.Search(jpB, mid)
						if rpn != nil {
							continue
						}
					}
					if !implSame(lhs, lerr, rhs, rerr) {
						r.Report(harness.Violation{Kind: "wrong-value", Signature: "pipe-law:" + text,
							Input: map[string]interface{}{"expression": text, "A": a, "B": b, "document": d}, Expected: "equal results, error iff a step errors",
							Observed: "Search(A|B) = " + showRes(lhs, lerr) + " but Search(B, Search(A)) = " + showRes(rhs, rerr) + " with Search(A) = " + showRes(mid, merr)})
						break
					}
				}
			}
		}
	}
	// ---- (2) referential transparency
	gc := univ.NewGen(univ.MixedFragment("HOLE"))
	ctxs := buildExprs(gc, wC, func(toks []model.Tok, ast *model.Node) bool {
		if countHoles(toks) != 1 {
			return false
		}
		_, root := holeAtRoot(ast)
		return root
	})
	// operator contexts with every comparator and logical operator, the hole on either side, next to a field,
	// a literal or a raw string (a parser that normalises "literal op expression" must keep the meaning)
	for _, op := range []string{"==", "!=", "<", "<=", ">", ">=", "||", "&&"} {
		for _, x := range []string{"a", "b", "`1`", "`2`", "'x'", "b.a"} {
			ctxs = append(ctxs, exprFromText("HOLE "+op+" "+x), exprFromText(x+" "+op+" HOLE"), exprFromText("[HOLE "+op+" "+x+", "+x+" "+op+" HOLE]"))
		}
	}
	// a call on the hole next to a second mention of the same data: if the call works in place on what the hole
	// evaluated to, the literal twin (whose hole is a private literal) gives a different answer
	for _, f := range []string{"merge(HOLE, b)", "merge(HOLE, a)", "sort(HOLE)", "reverse(HOLE)", "sort_by(HOLE, &k)", "sort_by(HOLE, &@)", "to_array(HOLE)", "not_null(HOLE)", "map(&@, HOLE)", "HOLE[::-1]", "HOLE[]", "max_by(HOLE, &@)", "values(HOLE)"} {
		ctxs = append(ctxs, exprFromText("["+f+", a]"), exprFromText("["+f+", b]"), exprFromText("[a, "+f+", a]"), exprFromText("{x: "+f+", y: a, z: b}"), exprFromText("["+f+", a] | [1]"))
	}
	E := buildExprs(g, wE, nil)
	var rtCases int64
	lp, rp := model.Fixed(model.LPAREN), model.Fixed(model.RPAREN)
	harness.Parallel(len(ctxs), func(w, ci int) {
		c := &ctxs[ci]
		for ei := range E {
			e := &E[ei]
			full := substitute(c.toks, append(append([]model.Tok{lp}, e.toks...), rp))
			fullText := model.Spell(full, model.Tight)
			fullAst, _, perr := model.Parse(full)
			if perr != nil {
				harness.Fatal("model rejects substituted context %q: %v", fullText, perr)
			}
			jpFull, cerr, pn := impl.Compile(fullText)
			jpE, cerrE, pnE := impl.Compile(e.text)
			if pn != nil || cerr != nil || pnE != nil || cerrE != nil {
				r.Report(harness.Violation{Kind: "rejected-grammatical", Signature: "compile-error:" + fullText, Input: map[string]interface{}{"expression": fullText}, Expected: "compiles", Observed: "error or panic"})
				continue
			}
			for _, d := range docs {
				var st int64
				outs := model.Outcomes(fullAst, d, &st)
				eouts := model.Outcomes(e.ast, d, &st)
				atomic.AddInt64(&steps, st)
				atomic.AddInt64(&rtCases, 1)
				if len(outs) != 1 || outs[0].Err == model.ErrGap || len(eouts) != 1 || eouts[0].Err != nil {
					atomic.AddInt64(&gaps, 1) // order dependent, gap, or E itself errors (then C[E] has no literal twin)
					continue
				}
				if outs[0].Err != nil || outs[0].Val != nil {
					atomic.AddInt64(&nontriv, 1)
				}
				v, verr, vpn := impl.Search(jpE, model.Copy(d))
				if vpn != nil || verr != nil || jsonDefect(v, "") != "" {
					continue
				}
				js, jerr := json.Marshal(v)
				if jerr != nil {
					continue
				}
				var vv interface{}
				json.Unmarshal(js, &vv)
				litTok := model.T(model.LIT, model.LiteralText(vv))
				twin := substitute(c.toks, []model.Tok{litTok})
				twinText := model.Spell(twin, model.Tight)
				jpTwin, terr, tpn := impl.Compile(twinText)
				if tpn != nil || terr != nil {
					r.Report(harness.Violation{Kind: "rejected-grammatical", Signature: "compile-error:" + twinText, Input: map[string]interface{}{"expression": twinText}, Expected: "compiles", Observed: "error or panic"})
					continue
				}
				lhs, lerr, lpn := impl.Search(jpFull, model.Copy(d))
				rhs, rerr, rpn := impl.Search(jpTwin, model.Copy(d))
				if lpn != nil || rpn != nil {
					continue
				}
				if !implSame(lhs, lerr, rhs, rerr) {
					r.Report(harness.Violation{Kind: "wrong-value", Signature: "ref-transparency:" + c.text + " with " + e.text,
						Input:    map[string]interface{}{"expression": fullText, "context": c.text, "E": e.text, "literal_twin": twinText, "document": d},
						Expected: "equal results", Observed: "Search(C[E]) = " + showRes(lhs, lerr) + " but Search(C[literal]) = " + showRes(rhs, rerr)})
					break
				}
			}
		}
	})
	// ---- (2b) numerals at the edge of float64 precision: a field holding the number and the literal spelling the
	// same digits are the same value in every context (an implementation that keeps big literals in another Go
	// type - json.Number, big.Int, int64 - must make every consumer understand that type)
	{
		nums := []string{"12345678901234567000", "9007199254740993", "18446744073709551616", "-9223372036854775809", "9223372036854775807", "100000000000000000000", "1e19", "1.5e300", "-0", "0.1", "123456789012345678", "4611686018427387904"}
		ctxs := []string{"HOLE", "[HOLE] == [a]", "contains(b, HOLE)", "abs(HOLE)", "type(HOLE)", "max([HOLE, `1`])", "{x: HOLE} == {x: a}", "HOLE == a", "[HOLE][0] == a", "to_string(HOLE) == to_string(a)", "sum([HOLE])",
			"HOLE > `1`", "a <= HOLE", "sort([HOLE, `2`])", "not_null(HOLE)", "to_number(HOLE) == a", "ceil(HOLE) == ceil(a)", "avg([HOLE, HOLE]) == a", "min_by([{k: HOLE}, {k: `1`}], &k)", "[HOLE, a] | [0] == [1]", "contains([HOLE], a)", "contains([[HOLE]], [a])", "{x: [HOLE]} == {x: [a]}", "to_array(HOLE)[0] == a", "HOLE != a", "!HOLE", "HOLE || 'f'", "join(',', [to_string(HOLE)])", "map(&abs(@), [HOLE])", "b == [HOLE, `1`]", "merge({x: HOLE}, {y: a})"}
		for _, n := range nums {
			var doc interface{}
			json.Unmarshal([]byte(`{"a": `+n+`, "b": [`+n+`, 1]}`), &doc)
			for _, cx := range ctxs {
				withField := strings.Replace(cx, "HOLE", "a", -1)
				withLit := strings.Replace(cx, "HOLE", "`"+n+"`", -1)
				r1, e1, p1 := impl.SearchOnce(withField, model.Copy(doc))
				r2, e2, p2 := impl.SearchOnce(withLit, model.Copy(doc))
				rtCases++
				if p1 != nil || p2 != nil {
					continue
				}
				if !implSame(r1, e1, r2, e2) {
					r.Report(harness.Violation{Kind: "wrong-value", Signature: "transparency-big-numeral:" + cx,
						Input:    map[string]interface{}{"context": cx, "numeral": n, "document": doc, "with_field": withField, "with_literal": withLit},
						Expected: "the field a and the literal `" + n + "` are the same value, so both spellings give the same result", Observed: withField + " = " + showRes(r1, e1) + " but " + withLit + " = " + showRes(r2, e2)})
					break
				}
			}
		}
	}
	r.Evaluations = pairs + rtCases
	r.Traces = pairs + rtCases
	r.States = pairs + rtCases
	r.Transitions = steps
	r.Nontrivial = nontriv
	r.GapCases = gaps
	r.Note("pipe_law_cases", pairs)
	r.Note("referential_transparency_cases", rtCases)
	r.Note("expressions_A", len(A))
	r.Note("contexts", len(ctxs))
	r.Note("hole_expressions", len(E))
	r.Note("documents", len(docs))
	if len(A) > 3 && len(ctxs) > 3 {
		r.Sample(map[string]interface{}{"A": A[len(A)/2].text, "B": A[len(A)/3].text, "composed": A[len(A)/2].text + "|" + A[len(A)/3].text, "document": docs[len(docs)-1]})
		r.Sample(map[string]interface{}{"context": ctxs[len(ctxs)/2].text, "E": E[len(E)/2].text, "document": docs[len(docs)-2]})
	}
	return harness.Coverage{Exhaustive: true, Bounds: map[string]interface{}{"pipe_operand_weight": wA, "context_weight": wC, "hole_expression_weight": wE, "documents": len(docs)}, Outcomes: 2}
}

func showRes(v interface{}, err error) string {
	if err != nil {
		return "error(" + err.Error() + ")"
	}
	return model.Show(v)
}
