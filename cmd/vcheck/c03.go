package main

import (
	"fmt"
	"sync"
	"sync/atomic"

	"verif/harness"
	"verif/impl"
	"verif/model"
	"verif/univ"
)

func init() { register("C03", checkC03) }

// spans collects the token spans of all AST nodes that P recorded.
func spans(n *model.Node, out map[[2]int]bool) {
	if n.Hi > n.Lo {
		out[[2]int{n.Lo, n.Hi}] = true
	}
	for _, c := range n.Children {
		spans(c, out)
	}
}

func withParens(toks []model.Tok, lo, hi int) []model.Tok {
	out := make([]model.Tok, 0, len(toks)+2)
	out = append(out, toks[:lo]...)
	out = append(out, model.Fixed(model.LPAREN))
	out = append(out, toks[lo:hi]...)
	out = append(out, model.Fixed(model.RPAREN))
	out = append(out, toks[hi:]...)
	return out
}

type c03State struct {
	r                                                                                            *harness.Run
	docs                                                                                         []interface{}
	docsOnce                                                                                     sync.Once
	sentences, variants, preserved, changed, styleChecks, shapeOnly, shapeConfirmed, tokenChecks int64
}

func (s *c03State) distinguishingDocs() []interface{} {
	s.docsOnce.Do(func() {
		atoms := univ.Js(`null`, `false`, `1`, `"a"`, `[]`, `{}`, `0`, `2`, `"b"`)
		s.docs = univ.Values(2, 2, atoms[:6], []string{"a", "b"})
		s.docs = append(s.docs, univ.Values(1, 2, atoms, []string{"a", "b"})...)
		s.docs = append(s.docs, projDocs...)
		s.docs = append(s.docs, collisionDocs...)
	})
	return s.docs
}

// implRender compiles text and returns the AST render ("" + error text on failure).
func implRender(text string) (string, error, *impl.Panic) {
	jp, err, pn := impl.Compile(text)
	if pn != nil || err != nil {
		return "", err, pn
	}
	return impl.Render(jp), nil, nil
}

// one checks one sentence; blind = true when it comes from the blind enumeration.
func (s *c03State) one(toks []model.Tok) {
	r := s.r
	ast, strict, perr := model.Parse(toks)
	if perr != nil || !strict {
		return // not a sentence of G_strict (callers only pass sentences; gap otherwise)
	}
	atomic.AddInt64(&s.sentences, 1)
	want := model.Render(ast)
	tight := model.Spell(toks, model.Tight)
	base, cerr, pn := implRender(tight)
	if pn != nil || cerr != nil {
		obs := fmt.Sprint(cerr)
		if pn != nil {
			obs = pn.Error()
		}
		r.Report(harness.Violation{Kind: "rejected-grammatical", Signature: "compile-error:" + tight, Input: map[string]interface{}{"expression": tight}, Expected: "compiles to " + want, Observed: obs})
		return
	}
	// layer 1a: whitespace styles and token sequence
	for _, st := range []model.Style{model.Spaced, model.Wild} {
		text := model.Spell(toks, st)
		got, cerr, pn := implRender(text)
		atomic.AddInt64(&s.styleChecks, 1)
		if pn != nil || cerr != nil || got != base {
			r.Report(harness.Violation{Kind: "wrong-value", Signature: "whitespace-changes-parse:" + tight,
				Input: map[string]interface{}{"expression": text, "tight": tight}, Expected: "same parse as the tight spelling: " + base, Observed: fmt.Sprintf("%s (err %v)", got, cerr)})
		}
		types, _, terr := impl.Tokens(text)
		atomic.AddInt64(&s.tokenChecks, 1)
		okTok := terr == nil && len(types) == len(toks)
		if okTok {
			for i, t := range toks {
				if types[i] != t.ImplName() {
					okTok = false
				}
			}
		}
		if !okTok {
			r.Report(harness.Violation{Kind: "wrong-value", Signature: "whitespace-changes-tokens:" + tight,
				Input: map[string]interface{}{"expression": text}, Expected: "token sequence " + model.Spell(toks, model.Spaced), Observed: fmt.Sprintf("%v (err %v)", types, terr)})
		}
	}
	// layer 1b: redundant parentheses, judged meaning-preserving by the model
	sp := map[[2]int]bool{{0, len(toks)}: true}
	spans(ast, sp)
	all := append([]model.Tok{}, toks...)
	type ins struct{ lo, hi int }
	var kept []ins
	for k := range sp {
		v := withParens(toks, k[0], k[1])
		atomic.AddInt64(&s.variants, 1)
		vast, vstrict, verr := model.Parse(v)
		if verr != nil || !vstrict || model.Render(vast) != want {
			atomic.AddInt64(&s.changed, 1)
			continue // the model judges this pair of parentheses meaning-changing (or ungrammatical)
		}
		atomic.AddInt64(&s.preserved, 1)
		kept = append(kept, ins{k[0], k[1]})
		s.compareVariant(toks, v, tight, base, "parentheses")
	}
	// all meaning-preserving pairs at once (inserted from the widest/last span inwards)
	if len(kept) > 1 {
		type pos struct {
			at   int
			open bool
			w    int
		}
		var ps []pos
		for _, k := range kept {
			ps = append(ps, pos{k.lo, true, k.hi - k.lo}, pos{k.hi, false, k.hi - k.lo})
		}
		out := []model.Tok{}
		for i := 0; i <= len(toks); i++ {
			// closers first (narrowest first), then openers (widest first)
			for w := 1; w <= len(toks); w++ {
				for _, p := range ps {
					if p.at == i && !p.open && p.w == w {
						out = append(out, model.Fixed(model.RPAREN))
					}
				}
			}
			for w := len(toks); w >= 1; w-- {
				for _, p := range ps {
					if p.at == i && p.open && p.w == w {
						out = append(out, model.Fixed(model.LPAREN))
					}
				}
			}
			if i < len(toks) {
				out = append(out, toks[i])
			}
		}
		vast, vstrict, verr := model.Parse(out)
		if verr == nil && vstrict && model.Render(vast) == want {
			atomic.AddInt64(&s.preserved, 1)
			s.compareVariant(toks, out, tight, base, "all parentheses at once")
		}
		_ = all
	}
	// parens-minus: delete one existing pair
	var stack []int
	for i, t := range toks {
		switch t.Kind {
		case model.LPAREN:
			stack = append(stack, i)
		case model.RPAREN:
			if len(stack) == 0 {
				continue
			}
			o := stack[len(stack)-1]
			stack = stack[:len(stack)-1]
			if o > 0 && toks[o-1].Kind == model.UID {
				continue // call parentheses
			}
			v := append(append(append([]model.Tok{}, toks[:o]...), toks[o+1:i]...), toks[i+1:]...)
			atomic.AddInt64(&s.variants, 1)
			vast, vstrict, verr := model.Parse(v)
			if verr != nil || !vstrict || model.Render(vast) != want {
				atomic.AddInt64(&s.changed, 1)
				continue
			}
			atomic.AddInt64(&s.preserved, 1)
			s.compareVariant(toks, v, tight, base, "deleted parentheses")
		}
	}
	// layer 2: canonical grouping, confirmed semantically
	if base != want {
		s.confirm(toks, ast, tight, base, want)
	}
}

func (s *c03State) compareVariant(toks, v []model.Tok, tight, base, what string) {
	text := model.Spell(v, model.Tight)
	got, cerr, pn := implRender(text)
	if pn != nil || cerr != nil || got != base {
		obs := got
		if cerr != nil {
			obs = "Compile error: " + cerr.Error()
		}
		if pn != nil {
			obs = pn.Error()
		}
		s.r.Report(harness.Violation{Kind: "wrong-value", Signature: "redundant-parens-change-parse:" + tight,
			Input:    map[string]interface{}{"expression": tight, "variant": text, "variant_kind": what},
			Expected: "the variant parses like the original (the canonical rules give both the same grouping): " + base, Observed: obs})
	}
}

// confirm looks for a document on which the implementation's grouping gives a
// result the canonical grouping does not admit.
func (s *c03State) confirm(toks []model.Tok, ast *model.Node, tight, base, want string) {
	jp, cerr, pn := impl.Compile(tight)
	if cerr != nil || pn != nil {
		return
	}
	for _, d := range s.distinguishingDocs() {
		outs := model.Outcomes(ast, d, nil)
		res, serr, spn := impl.Search(jp, model.Copy(d))
		if spn != nil {
			continue
		}
		ok := false
		for _, o := range outs {
			if o.Err == model.ErrGap || (o.Err == model.ErrEval && serr != nil) || (o.Err == nil && serr == nil && model.Match(res, o.Val)) {
				ok = true
			}
		}
		if !ok {
			atomic.AddInt64(&s.shapeConfirmed, 1)
			sig := "grouping:" + tight
			if alt, _, aerr := model.ParseDeFacto(toks); aerr == nil && model.Render(alt) == base {
				sig = "dotstar-scope:" + tight // the known irregularity of "X.*" and nothing else
			}
			s.r.Report(harness.Violation{Kind: "wrong-value", Signature: sig,
				Input:    map[string]interface{}{"expression": tight, "document": d, "canonical_grouping": want, "implementation_grouping": base},
				Expected: outcomesDesc(outs), Observed: showRes(res, serr), GoTest: goTest(tight, d, outcomesDesc(outs))})
			return
		}
	}
	atomic.AddInt64(&s.shapeOnly, 1)
}

func checkC03(r *harness.Run) harness.Coverage {
	r.Rule = "(a) every grammatical token sequence up to the blind length bound over one spelling per token kind; (b) every sentence of the operator fragment (all operators over single-letter leaves) up to the structural weight bound; (c) every postfix chain (dot, index, slice, [*], .*, [], filters, with | and || as terminators) up to a larger weight bound, and every sequence of up to 4 (thorough 5) postfix steps after a, @ and *. For each: three whitespace styles (same AST render, intended token sequence), every insertion of one parenthesis pair around any AST-node span and all of them at once, every deletion of an existing pair — a variant is meaning-preserving iff the canonical parser P gives the same AST, and then the implementation must give the same AST for both; the implementation AST is compared with the canonical AST and a difference must be confirmed by a distinguishing document before it is reported. Non-trivial = sentence with at least one operator pair; distinct by token sequence"
	r.Assumptions = []string{"canonical precedence data: model/parser.go (published JMESPath binding powers), cross-checked with G and grounded on the compliance corpus", "equal parse implies equal result on every document (the interpreter is a function of the AST)", "de-facto irregularities G10 (X.*.Y.Z, filter after filter) are part of the canonical rules"}
	blindN, opsW := 4, 5
	if r.Thorough() {
		blindN, opsW = 6, 6
	}
	s := &c03State{r: r}
	rec := make([]*model.Recogniser, harness.Workers())
	for i := range rec {
		rec[i] = &model.Recogniser{}
	}
	doneBlind := 0
	for n := 1; n <= blindN; n++ {
		if r.OverBudget() {
			break
		}
		total := pow(len(blindAlphabet), n)
		harness.Parallel(total, func(wk, i int) {
			toks := seqAt(blindAlphabet, n, i, make([]model.Tok, 0, 8))
			if !rec[wk].Accepts(model.Kinds(toks)) {
				return
			}
			s.one(toks)
		})
		doneBlind = n
	}
	g := univ.NewGen(univ.OpsFragment())
	doneOps := 0
	for w := 1; w <= opsW; w++ {
		if r.OverBudget() {
			break
		}
		ss := g.Sentences(w)
		harness.Parallel(len(ss), func(wk, i int) { s.one(g.Tokens(ss[i])) })
		doneOps = w
		if w == opsW && len(ss) > 2 {
			for _, k := range []int{0, len(ss) / 2, len(ss) - 1} {
				toks := g.Tokens(ss[k])
				ast, _, _ := model.Parse(toks)
				r.Sample(map[string]interface{}{"sentence": model.Spell(toks, model.Tight), "canonical_ast": model.Render(ast)})
			}
		}
	}
	// long postfix chains: where projection scope is decided
	chainW := 7
	if r.Thorough() {
		chainW = 8
	}
	gch := univ.NewGen(univ.ChainFragment())
	doneChain := 0
	for w := 1; w <= chainW; w++ {
		if r.OverBudget() {
			break
		}
		ss := gch.Sentences(w)
		harness.Parallel(len(ss), func(wk, i int) { s.one(gch.Tokens(ss[i])) })
		doneChain = w
	}
	// pure postfix chains by LENGTH rather than weight: every sequence of up to 4 (thorough 5) steps from
	// {.a, .*, [0], [*], [], [?a], [1:], |a} after each of the bases a, @, * — e.g. a.*.*.a.a, a[?a].*.a[?a],
	// a[?a][0]: the sentences where one projection's scope ends inside another's lie at weights 8-10
	steps := [][]model.Tok{univ.Lx(".a"), univ.Lx(".*"), univ.Lx("[0]"), univ.Lx("[*]"), univ.Lx("[]"), univ.Lx("[?a]"), univ.Lx("[1:]"), univ.Lx("|a")}
	maxSteps := 4
	if r.Thorough() {
		maxSteps = 5
	}
	var chains [][]model.Tok
	for _, base := range [][]model.Tok{univ.Lx("a"), univ.Lx("@"), univ.Lx("*")} {
		var rec2 func(cur []model.Tok, k int)
		rec2 = func(cur []model.Tok, k int) {
			if k > 0 {
				chains = append(chains, append([]model.Tok{}, cur...))
			}
			if k == maxSteps {
				return
			}
			for _, st := range steps {
				rec2(append(append([]model.Tok{}, cur...), st...), k+1)
			}
		}
		rec2(base, 0)
	}
	before := s.sentences
	if !r.OverBudget() {
		harness.Parallel(len(chains), func(wk, i int) { s.one(chains[i]) })
	}
	r.Note("postfix_chains_by_length", s.sentences-before)
	r.Evaluations = s.sentences + s.variants + s.styleChecks
	r.Traces = s.sentences + s.preserved + s.styleChecks
	r.States = s.sentences
	r.Transitions = s.variants + s.styleChecks
	r.Nontrivial = s.preserved
	r.Note("sentences", s.sentences)
	r.Note("paren_variants_tried", s.variants)
	r.Note("paren_variants_meaning_preserving", s.preserved)
	r.Note("paren_variants_meaning_changing_or_ungrammatical", s.changed)
	r.Note("whitespace_style_checks", s.styleChecks)
	r.Note("shape_only_difference", s.shapeOnly)
	r.Note("shape_difference_confirmed", s.shapeConfirmed)
	return harness.Coverage{Exhaustive: doneBlind == blindN && doneOps == opsW && doneChain == chainW,
		Bounds: map[string]interface{}{"blind_tokens": doneBlind, "operator_fragment_weight": doneOps, "postfix_chain_weight": doneChain}, Outcomes: 2}
}
