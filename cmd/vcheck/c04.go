package main

import (
	"encoding/json"
	"fmt"
	"strings"
	"sync"
	"sync/atomic"
	"unicode/utf8"

	"verif/harness"
	"verif/impl"
	"verif/model"
	"verif/univ"
)

func init() { register("C04", checkC04) }

// blindAlphabet: one concrete spelling per token kind (two comparators).
var blindAlphabet = []model.Tok{
	model.Fixed(model.STAR), model.Fixed(model.DOT), model.Fixed(model.FILTER), model.Fixed(model.FLATTEN),
	model.Fixed(model.LPAREN), model.Fixed(model.RPAREN), model.Fixed(model.LBRACKET), model.Fixed(model.RBRACKET),
	model.Fixed(model.LBRACE), model.Fixed(model.RBRACE), model.Fixed(model.OR), model.Fixed(model.PIPE),
	model.T(model.NUM, "0"), model.T(model.UID, "a"), model.T(model.QID, `"b"`), model.Fixed(model.COMMA),
	model.Fixed(model.COLON), model.T(model.CMP, "=="), model.T(model.CMP, "<"), model.T(model.LIT, "`1`"),
	model.T(model.RAW, "'r'"), model.Fixed(model.CUR), model.Fixed(model.AMP), model.Fixed(model.AND),
	model.Fixed(model.NOT),
}

// richAlphabet adds tokens with internal structure (several spellings per kind).
var richAlphabet = append(append([]model.Tok{}, blindAlphabet...),
	model.T(model.NUM, "-1"), model.T(model.NUM, "01"), model.T(model.NUM, "-0"), model.T(model.NUM, "12"),
	// numerals are decimal digit strings: a leading zero is not an octal prefix (08, 09 are numbers), nothing is hexadecimal
	model.T(model.NUM, "08"), model.T(model.NUM, "-09"), model.T(model.NUM, "0018"), model.T(model.NUM, "00"),
	model.T(model.UID, "_"), model.T(model.UID, "A1_b"), model.T(model.UID, "length"),
	model.T(model.QID, `""`), model.T(model.QID, `"\u0061\n\"\\"`), model.T(model.QID, `"é😀"`), model.T(model.QID, `"a b"`),
	model.T(model.LIT, "`null`"), model.T(model.LIT, "`\"a\"`"), model.T(model.LIT, "`[1, {\"a\": \"\\`\"}]`"), model.T(model.LIT, "` {} `"),
	model.T(model.RAW, "''"), model.T(model.RAW, `'it\'s'`), model.T(model.RAW, `'a\nb "q" é'`),
	model.T(model.CMP, "!="), model.T(model.CMP, "<="), model.T(model.CMP, ">"), model.T(model.CMP, ">="),
	// runs of backslashes before the closing delimiter: an escaped backslash followed by an escaped delimiter,
	// two escaped backslashes, and a raw string with a doubled backslash / ending in an escaped quote
	model.T(model.QID, `"a\\\"b"`), model.T(model.QID, `"\\\\"`), model.T(model.LIT, "`\"x\\\\\\`\"`"), model.T(model.RAW, `'a\\b'`), model.T(model.RAW, `'\\\''`), model.T(model.RAW, `'b\''`),
	// lexically complete tokens whose content is not valid (the grammar's json-value / quoted-string / number)
	model.T(model.LIT, "`1 2`"), model.T(model.LIT, "`{\"a\": 1} x`"), model.T(model.LIT, "`[1, 2]]`"), model.T(model.LIT, "`foo`"), model.T(model.LIT, "`[1,]`"), model.T(model.LIT, "``"), model.T(model.LIT, "`'a'`"), model.T(model.LIT, "`01`"),
	model.T(model.QID, `"\q"`), model.T(model.QID, `"a\u12"`), model.T(model.QID, "\"a\nb\""), model.T(model.QID, `"\ud800"`),
	model.T(model.NUM, "-"),
)

// contentOK: every token's content is valid by the grammar (JSON text in a
// literal, JSON string syntax in a quoted identifier, digits in a number). A lone
// surrogate escape (gap G3) gives no verdict.
func contentOK(toks []model.Tok) (ok bool, gap bool) {
	ok = true
	for _, t := range toks {
		switch t.Kind {
		case model.LIT:
			var v interface{}
			body := strings.Replace(t.Text[1:len(t.Text)-1], "\\`", "`", -1)
			if json.Unmarshal([]byte(body), &v) != nil {
				ok = false
			}
		case model.QID:
			var sv string
			if json.Unmarshal([]byte(t.Text), &sv) != nil {
				ok = false
			}
			if strings.Contains(strings.ToLower(t.Text), `\ud8`) || strings.Contains(strings.ToLower(t.Text), `\udc`) {
				gap = true
			}
		case model.NUM:
			if t.Text == "-" {
				ok = false
			}
		}
	}
	return
}

// editAlphabet: what the edit neighbourhood inserts / substitutes: the blind
// alphabet plus lexically complete tokens with invalid content.
var editAlphabet = append(append([]model.Tok{}, blindAlphabet...),
	model.T(model.NUM, "-"), model.T(model.LIT, "`1 2`"), model.T(model.QID, `"\q"`), model.T(model.NUM, "-1"))

var usabilityDocs = univ.Js(`null`, `{"a":{"a":1,"b":[1,2]},"b":[{"a":1},{"a":2}]}`, `[1,[2],{"a":3}]`, `"a"`, `1`)

func pow(b, e int) int {
	r := 1
	for i := 0; i < e; i++ {
		r *= b
	}
	return r
}

// seqAt decodes index i into a sequence of exactly n symbols.
func seqAt(alpha []model.Tok, n, i int, buf []model.Tok) []model.Tok {
	buf = buf[:0]
	for k := 0; k < n; k++ {
		buf = append(buf, alpha[i%len(alpha)])
		i /= len(alpha)
	}
	return buf
}

func spellKinds(toks []model.Tok) string { return model.Spell(toks, model.Spaced) }

type c04Verdict int

const (
	c04OK c04Verdict = iota
	c04RejectedGrammatical
	c04AcceptedUngrammatical
	c04Unusable
	c04CompilePanic
	c04NoVerdict
)

var c04KindNames = map[c04Verdict]string{c04RejectedGrammatical: "rejected-grammatical",
	c04AcceptedUngrammatical: "accepted-ungrammatical", c04Unusable: "accepted-but-unusable", c04CompilePanic: "panic"}

type c04Worker struct {
	strict, liberal model.Recogniser
	oneShot         bool // also require the one-shot Search to reject what must be rejected
}

func newC04Worker() *c04Worker {
	w := &c04Worker{}
	w.liberal.Liberal = true
	return w
}

// judge classifies one token sequence in one whitespace style.
func (w *c04Worker) judge(toks []model.Tok, style model.Style) (v c04Verdict, detail string, gs, gl bool) {
	ks := model.Kinds(toks)
	gs = w.strict.Accepts(ks)
	gl = gs || w.liberal.Accepts(ks)
	if cok, cgap := contentOK(toks); !cok {
		gs, gl = false, false // a token whose content is invalid makes the sequence ungrammatical
	} else if cgap {
		gs, gl = false, true // gap G3: no verdict
	}
	text := model.Spell(toks, style)
	jp, err, pn := impl.Compile(text)
	if pn != nil {
		return c04CompilePanic, pn.Error(), gs, gl
	}
	accepted := err == nil && jp != nil
	switch {
	case gs && !accepted:
		return c04RejectedGrammatical, fmt.Sprint(err), gs, gl
	case !gl && !accepted && style == model.Tight && w.oneShot:
		// Compile rejects, as it must; the one-shot Search must not evaluate the text either
		if _, serr, spn := impl.SearchOnce(text, map[string]interface{}{"a": 1.0}); spn == nil && serr == nil {
			return c04AcceptedUngrammatical, "Compile rejects the text but jmespath.Search evaluates it (nil error)", gs, gl
		}
	case !gl && accepted:
		// make the late failure visible in the report, if there is one
		late := ""
		for _, d := range usabilityDocs {
			_, serr, spn := impl.Search(jp, model.Copy(d))
			if spn != nil {
				late = "; Search then panics: " + spn.Error()
				break
			}
			if serr != nil && strings.Contains(serr.Error(), "Unknown AST node") {
				late = "; Search then fails: " + serr.Error()
				break
			}
		}
		return c04AcceptedUngrammatical, "Compile returned no error" + late, gs, gl
	case gs && accepted:
		// "before any evaluation": a compiled sentence must be usable
		for _, d := range usabilityDocs {
			_, serr, spn := impl.Search(jp, model.Copy(d))
			if spn != nil {
				return c04Unusable, "Search panics: " + spn.Error(), gs, gl
			}
			if serr != nil && strings.Contains(serr.Error(), "Unknown AST node") {
				return c04Unusable, "Search fails: " + serr.Error(), gs, gl
			}
		}
	}
	if gl && !gs {
		return c04NoVerdict, "", gs, gl
	}
	return c04OK, "", gs, gl
}

// cause names the known irregularity that explains an accepted-ungrammatical
// sequence, if any: the sequence is not in L(G) but the parser variant that lets
// a multi-select list continue a projection accepts it.
func c04Cause(toks []model.Tok, v c04Verdict) string {
	if v != c04AcceptedUngrammatical {
		return ""
	}
	if _, _, err := model.ParseListAfterProjection(toks); err == nil {
		return "multiselect-after-projection"
	}
	return ""
}

// minimize deletes tokens (single tokens, contiguous windows of 2-3 tokens and
// arbitrary pairs) while the same verdict persists: a small core of the mismatch.
func (w *c04Worker) minimize(toks []model.Tok, style model.Style, want c04Verdict) []model.Tok {
	cur := append([]model.Tok{}, toks...)
	wantCause := c04Cause(toks, want)
	try := func(cand []model.Tok) bool {
		if len(cand) == 0 {
			return false
		}
		if v, _, _, _ := w.judge(cand, style); v == want && c04Cause(cand, v) == wantCause {
			cur = cand
			return true
		}
		return false
	}
	for changed := true; changed; {
		changed = false
		for win := 1; win <= 3 && !changed; win++ {
			for i := 0; i+win <= len(cur); i++ {
				if try(append(append([]model.Tok{}, cur[:i]...), cur[i+win:]...)) {
					changed = true
					break
				}
			}
		}
		for i := 0; i < len(cur) && !changed; i++ {
			for j := i + 2; j < len(cur); j++ {
				cand := append([]model.Tok{}, cur[:i]...)
				cand = append(cand, cur[i+1:j]...)
				cand = append(cand, cur[j+1:]...)
				if try(cand) {
					changed = true
					break
				}
			}
		}
	}
	return cur
}

func (w *c04Worker) report(r *harness.Run, toks []model.Tok, style model.Style, v c04Verdict, detail string) {
	core := w.minimize(toks, style, v)
	coreText := spellKinds(core)
	_, coreDetail, gs, _ := w.judge(core, style)
	if coreDetail == "" {
		coreDetail = detail
	}
	text := model.Spell(core, style)
	exp := "Compile error (not a sentence of the grammar)"
	if gs {
		exp = "Compile succeeds and the expression is usable (sentence of the grammar)"
	}
	sigKind := c04KindNames[v]
	if c := c04Cause(core, v); c != "" {
		sigKind = c
	}
	r.Report(harness.Violation{
		Kind:      c04KindNames[v],
		Signature: sigKind + ":" + coreText,
		Input:     map[string]interface{}{"expression": text, "tokens": coreText, "found_in": model.Spell(toks, style)},
		Expected:  exp,
		Observed:  coreDetail,
		GoTest:    fmt.Sprintf("func TestReplay(t *testing.T) {\n\t_, err := jmespath.Compile(%q)\n\tt.Logf(\"err=%%v\", err) // %s\n}", text, exp),
	})
}

func checkC04(r *harness.Run) harness.Coverage {
	r.Rule = "every token sequence over a 25-symbol alphabet (one spelling per token kind, two comparators) up to the length bound, in three whitespace styles, " +
		"plus every single-token edit of every generated sentence up to the size bound, plus sequences over a 60-symbol alphabet with structured spellings (several valid spellings per kind, and lexically complete literals / quoted identifiers / numbers whose content is invalid); " +
		"classified by the CFG recogniser G (strict / liberal) and compared with Compile; plus every string of up to 3 (thorough 4) symbols of the 60-symbol lexer-class byte alphabet, lexed by the reference lexer and classified the same way. Non-trivial = the sequence is a sentence, or is one token edit away from a sentence; distinct by token sequence."
	r.Assumptions = []string{
		"the grammar is the JMESPath ABNF as transcribed in model/grammar.go, grounded on the 862 compliance cases",
		"gaps G1 (& outside a function argument) and G2-G4 give no verdict",
		"sentences longer than the bound are covered only through the edit neighbourhood and the structured-spelling pass",
	}
	blindN, editW, richN := 4, 5, 2
	if r.Thorough() {
		blindN, editW, richN = 6, 7, 3
	}
	var outcomes [6]int64
	var sentences, nearMisses, gaps, evals, states int64

	// ---- self-check of the generator against G, and of P against G (model consistency)
	selfN := 5
	{
		g := univ.NewGen(univ.FullFragment())
		genKinds := map[string]bool{}
		for w := 1; w <= selfN; w++ {
			for _, s := range g.Sentences(w) {
				genKinds[kindKey(model.Kinds(g.Tokens(s)))] = true
			}
		}
		var bad int64
		var badMu sync.Mutex
		var badExamples []string
		workers := make([]*c04Worker, harness.Workers())
		for i := range workers {
			workers[i] = newC04Worker()
		}
		var kindAlpha []model.Tok // one symbol per kind
		seen := map[model.Kind]bool{}
		for _, t := range blindAlphabet {
			if !seen[t.Kind] {
				seen[t.Kind] = true
				kindAlpha = append(kindAlpha, t)
			}
		}
		var blindSent int64
		for n := 1; n <= selfN; n++ {
			total := pow(len(kindAlpha), n)
			harness.Parallel(total, func(wk, i int) {
				w := workers[wk]
				toks := seqAt(kindAlpha, n, i, make([]model.Tok, 0, 8))
				ks := model.Kinds(toks)
				gs := w.strict.Accepts(ks)
				gl := w.liberal.Accepts(ks)
				_, strict, perr := model.Parse(toks)
				pAcc := perr == nil
				if gs {
					atomic.AddInt64(&blindSent, 1)
				}
				if gs != (pAcc && strict) || gl != pAcc || gs != genKinds[kindKey(ks)] {
					atomic.AddInt64(&bad, 1)
					badMu.Lock()
					if len(badExamples) < 10 {
						badExamples = append(badExamples, fmt.Sprintf("%s: G_strict=%v G_liberal=%v P=%v(strict %v) generator=%v", spellKinds(toks), gs, gl, pAcc, strict, genKinds[kindKey(ks)]))
					}
					badMu.Unlock()
				}
			})
		}
		if bad > 0 {
			for _, e := range badExamples {
				fmt.Println("model self-check:", e)
			}
			harness.Fatal("model self-check failed: G, P and the sentence generator disagree on %d token sequences", bad)
		}
		if int(blindSent) != len(genKinds) {
			harness.Fatal("model self-check failed: generator produced %d kind sequences, G accepts %d", len(genKinds), blindSent)
		}
		r.Note("model_selfcheck", fmt.Sprintf("G_strict = P_strict = sentence generator and G_liberal = P on all %d-kind sequences up to length %d (%d sentences)", len(kindAlpha), selfN, blindSent))
	}

	workers := make([]*c04Worker, harness.Workers())
	for i := range workers {
		workers[i] = newC04Worker()
	}
	handle := func(wk int, toks []model.Tok, styles []model.Style) {
		w := workers[wk]
		for si, st := range styles {
			v, detail, gs, gl := w.judge(toks, st)
			atomic.AddInt64(&evals, 1)
			atomic.AddInt64(&outcomes[v], 1)
			if si == 0 {
				atomic.AddInt64(&states, int64(len(toks)))
				if gs {
					atomic.AddInt64(&sentences, 1)
				} else if gl {
					atomic.AddInt64(&gaps, 1)
				}
			}
			if v != c04OK && v != c04NoVerdict {
				w.report(r, toks, st, v, detail)
			}
		}
	}
	allStyles := []model.Style{model.Tight, model.Spaced, model.Wild}

	// ---- (1) blind enumeration T(n)
	completedBlind := 0
	for n := 1; n <= blindN; n++ {
		if r.OverBudget() {
			break
		}
		total := pow(len(blindAlphabet), n)
		styles := allStyles
		if n >= 6 {
			styles = allStyles[:1] // 2.4e8 sequences: tight style only; the other styles are covered up to n=5
		}
		for _, w := range workers {
			w.oneShot = n <= 5 // the one-shot entry point is ~10x more expensive per call; covered up to n=5
		}
		harness.Parallel(total, func(wk, i int) {
			handle(wk, seqAt(blindAlphabet, n, i, make([]model.Tok, 0, 8)), styles)
		})
		completedBlind = n
	}
	for _, w := range workers {
		w.oneShot = true
	}
	// ---- (3) structured spellings
	completedRich := 0
	for n := 1; n <= richN; n++ {
		total := pow(len(richAlphabet), n)
		harness.Parallel(total, func(wk, i int) {
			handle(wk, seqAt(richAlphabet, n, i, make([]model.Tok, 0, 8)), allStyles)
		})
		completedRich = n
	}
	// ---- (1c) every structured token (raw strings, quoted identifiers and literals with escapes, invalid contents)
	// inside every bracketing construct: a scanner that looks for delimiters in the TEXT must respect each
	// token kind's own escape rules ('it\'s' inside [ ], ( ), { }, [? ])
	{
		var structured []model.Tok
		for _, t := range richAlphabet[len(blindAlphabet):] {
			if t.Kind == model.RAW || t.Kind == model.QID || t.Kind == model.LIT {
				structured = append(structured, t)
			}
		}
		structured = append(structured, model.T(model.RAW, `'O\'Brien]'`), model.T(model.RAW, `'(\'['`), model.T(model.RAW, `'\'}'`), model.T(model.QID, `"]\")"`), model.T(model.LIT, "`\"[\\`(\"`"), model.T(model.RAW, `'"'`), model.T(model.RAW, "'`'"), model.T(model.QID, "\"'`\""))
		ctxs := []string{"[ T ]", "{ a : T }", "f ( T )", "a [? T ]", "( T )", "a [? b == T ]", "[ T , T ]", "a . { k : T }", "f ( a , T )", "[? T ] . a", "[ T ] | [ 0 ]", "( T ) || a", "[ T ,", "f ( T", "{ a : T", "[? T", "T ]", "T )"}
		var seqs [][]model.Tok
		for _, c := range ctxs {
			var tmpl []model.Tok
			for _, f := range strings.Fields(c) {
				if f == "T" {
					tmpl = append(tmpl, model.Tok{})
				} else {
					tmpl = append(tmpl, univ.Lx(f)...)
				}
			}
			for _, t := range structured {
				seq := make([]model.Tok, len(tmpl))
				for i, x := range tmpl {
					if x == (model.Tok{}) {
						seq[i] = t
					} else {
						seq[i] = x
					}
				}
				seqs = append(seqs, seq)
			}
		}
		harness.Parallel(len(seqs), func(wk, i int) { handle(wk, seqs[i], allStyles) })
		r.Note("structured_tokens_in_brackets", len(seqs))
	}
	// ---- (1d) every numeral spelling in every position the grammar has for a number (index, each slice part,
	// alone and combined): number = ["-"] 1*digit, read in base ten whatever it looks like; things that are not
	// numerals there (hex, signs, exponents, fractions, digit separators) are not sentences
	{
		numerals := []string{"0", "7", "08", "09", "-08", "010", "0018", "00", "-0", "-00", "0x10", "0X1", "0b1", "0o7", "1e1", "1_0", "+1", "--1", "1.", "1.0", "０", "١", "- 1", "1 0", "9223372036854775807", "-9223372036854775808", "0000000000000000000001"}
		ctxs := []string{"a[N]", "[N]", "a[N:]", "a[:N]", "a[::N]", "a[N:N]", "a[N:N:N]", "[N:N:N]", "a[*][N]", "a | [N]", "a[N][N]", "[a[N], b[N:]]", "f(a[N])", "a[?b[N]]", "{k: a[:N]}", "a.b[N].c", "a[N].b[N:N]"}
		var cases, gapsN int64
		nw := newC04Worker()
		for _, c := range ctxs {
			for _, n := range numerals {
				text := strings.Replace(c, "N", n, -1)
				want, verdict := false, true
				if toks, lerr := model.Lex(text); lerr == nil {
					ks := model.Kinds(toks)
					want = nw.strict.Accepts(ks)
					if cok, cgap := contentOK(toks); !cok {
						want = false
					} else if cgap || want != (want || nw.liberal.Accepts(ks)) {
						verdict = false
					}
				}
				if len(n) >= 19 {
					verdict = false // gap G2: numerals beyond the platform int
				}
				cases++
				if !verdict {
					gapsN++
					continue
				}
				_, cerr, pn := impl.Compile(text)
				got := cerr == nil && pn == nil
				if pn != nil || got != want {
					kind := "rejected-grammatical"
					if got {
						kind = "accepted-ungrammatical"
					}
					obs := "Compile returned no error"
					if pn != nil {
						kind, obs = "panic", pn.Error()
					} else if cerr != nil {
						obs = "Compile error: " + cerr.Error()
					}
					r.Report(harness.Violation{Kind: kind, Signature: kind + ":numeral " + n + " in " + c,
						Input: map[string]interface{}{"expression": text, "numeral": n, "position": c}, Expected: map[bool]string{true: "compiles (a decimal digit string is a number)", false: "Compile error (not a numeral of the grammar)"}[want], Observed: obs})
				}
			}
		}
		r.Note("numeral_spellings_in_positions", cases)
		atomic.AddInt64(&nearMisses, cases-gapsN)
	}
	// ---- (2) edit neighbourhood of generated sentences
	g := univ.NewGen(univ.FullFragment())
	completedEdit := 0
	for w := 1; w <= editW; w++ {
		if r.OverBudget() {
			break
		}
		ss := g.Sentences(w)
		harness.Parallel(len(ss), func(wk, i int) {
			toks := g.Tokens(ss[i])
			handle(wk, toks, allStyles[:1])
			n := len(toks)
			buf := make([]model.Tok, 0, n+1)
			// delete
			for p := 0; p < n; p++ {
				buf = append(append(buf[:0], toks[:p]...), toks[p+1:]...)
				if len(buf) > 0 {
					handle(wk, buf, allStyles[:1])
					atomic.AddInt64(&nearMisses, 1)
				}
			}
			// swap adjacent
			for p := 0; p+1 < n; p++ {
				if toks[p] == toks[p+1] {
					continue
				}
				buf = append(buf[:0], toks...)
				buf[p], buf[p+1] = buf[p+1], buf[p]
				handle(wk, buf, allStyles[:1])
				atomic.AddInt64(&nearMisses, 1)
			}
			for _, a := range editAlphabet {
				// replace
				for p := 0; p < n; p++ {
					if toks[p] == a {
						continue
					}
					buf = append(buf[:0], toks...)
					buf[p] = a
					handle(wk, buf, allStyles[:1])
					atomic.AddInt64(&nearMisses, 1)
				}
				// insert
				for p := 0; p <= n; p++ {
					buf = append(append(append(buf[:0], toks[:p]...), a), toks[p:]...)
					handle(wk, buf, allStyles[:1])
					atomic.AddInt64(&nearMisses, 1)
				}
			}
		})
		completedEdit = w
	}
	// ---- (2b) closer / separator edits of LARGER sentences: every sentence of the same fragment (lists, hashes and
	// argument lists of at most two members) up to STRUCTURAL weight 5 (thorough 6; closers and separators are
	// free, so "[{a: b}]" has weight 4) with one closer or separator deleted, or (up to weight 4 / 5) replaced by another one or
	// inserted anywhere: a construct that swallows the error of a missing closer is rescued by the
	// closer of the construct around it
	{
		fs := univ.FullFragment()
		fs.Weight = univ.StructuralWeight
		fs.MaxList, fs.MaxHash, fs.MaxArgs = 2, 2, 2
		gs := univ.NewGen(fs)
		closers := []model.Tok{model.Fixed(model.RPAREN), model.Fixed(model.RBRACKET), model.Fixed(model.RBRACE), model.Fixed(model.COMMA), model.Fixed(model.COLON)}
		isCloser := func(t model.Tok) bool {
			switch t.Kind {
			case model.RPAREN, model.RBRACKET, model.RBRACE, model.COMMA, model.COLON:
				return true
			}
			return false
		}
		cw := 5
		if r.Thorough() {
			cw = 6
		}
		var closerEdits int64
		for w := 3; w <= cw; w++ {
			if r.OverBudget() {
				break
			}
			ss := gs.Sentences(w)
			harness.Parallel(len(ss), func(wk, i int) {
				toks := gs.Tokens(ss[i])
				n := len(toks)
				if n <= editW {
					return // covered by the full edit neighbourhood above
				}
				buf := make([]model.Tok, 0, n+1)
				for p := 0; p < n; p++ {
					if !isCloser(toks[p]) {
						continue
					}
					buf = append(append(buf[:0], toks[:p]...), toks[p+1:]...)
					handle(wk, buf, allStyles[:1])
					atomic.AddInt64(&closerEdits, 1)
					for _, c := range closers {
						if c == toks[p] || w == cw {
							continue // the largest weight: deletions only
						}
						buf = append(buf[:0], toks...)
						buf[p] = c
						handle(wk, buf, allStyles[:1])
						atomic.AddInt64(&closerEdits, 1)
					}
				}
				if w < cw {
					for p := 0; p <= n; p++ {
						for _, c := range closers {
							buf = append(append(append(buf[:0], toks[:p]...), c), toks[p:]...)
							handle(wk, buf, allStyles[:1])
							atomic.AddInt64(&closerEdits, 1)
						}
					}
				}
			})
		}
		atomic.AddInt64(&nearMisses, closerEdits)
		r.Note("closer_edits_of_larger_sentences", closerEdits)
		r.Note("closer_edit_structural_weight", cw)
	}
	// ---- (4) byte level: every string of the lexer-class byte universe, judged by the reference
	// lexer + G. No verdict (gap) for invalid UTF-8, control characters and raw strings containing a
	// backslash (the property texts leave those open); everything else must be accepted iff it lexes
	// into a sentence.
	byteN := 3
	if r.Thorough() {
		byteN = 4
	}
	var byteCases, byteGaps int64
	syms := univ.ByteSymbols
	for n := 1; n <= byteN; n++ {
		total := pow(len(syms), n)
		harness.Parallel(total, func(wk, i int) {
			var b strings.Builder
			x := i
			for j := 0; j < n; j++ {
				b.WriteString(syms[x%len(syms)])
				x /= len(syms)
			}
			text := b.String()
			gap := !utf8.ValidString(text)
			for _, c := range text {
				if (c < 0x20 && c != '\t' && c != '\n' && c != '\r') || c == 0x7f {
					gap = true
				}
			}
			if gap {
				atomic.AddInt64(&byteGaps, 1)
				return
			}
			w := workers[wk]
			want := false
			toks, lerr := model.Lex(text)
			if lerr == nil && len(toks) > 0 {
				for _, t := range toks {
					if t.Kind == model.RAW && strings.Contains(t.Text, `\`) {
						gap = true
					}
				}
				ks := model.Kinds(toks)
				gs := w.strict.Accepts(ks)
				gl := gs || w.liberal.Accepts(ks)
				cok, cgap := contentOK(toks)
				if cgap || (gl && !gs) {
					gap = true
				}
				want = gs && cok
			}
			if gap {
				atomic.AddInt64(&byteGaps, 1)
				return
			}
			atomic.AddInt64(&byteCases, 1)
			jp, err, pn := impl.Compile(text)
			if pn != nil {
				return // C05
			}
			got := err == nil && jp != nil
			if got != want {
				kind := "accepted-ungrammatical"
				exp := "Compile error: the text does not lex into a sentence of the grammar"
				if want {
					kind, exp = "rejected-grammatical", "Compile succeeds: the text lexes into the sentence "+spellKinds(toks)
				}
				sig := fmt.Sprintf("byte-level:%s:%q", kind, text)
				if !want && lerr == nil {
					if c := c04Cause(toks, c04AcceptedUngrammatical); c != "" {
						sig = c + ":" + spellKinds(toks) // the recorded known finding, met at byte level
					}
				}
				r.Report(harness.Violation{Kind: kind, Signature: sig,
					Input: map[string]interface{}{"expression": text, "expression_quoted": fmt.Sprintf("%q", text)}, Expected: exp, Observed: fmt.Sprintf("Compile error = %v", err)})
			}
		})
	}
	evals += byteCases
	gaps += byteGaps
	r.Note("byte_level_strings_judged", byteCases)
	r.Sample(map[string]interface{}{"tokens": "a [ 0 ]", "G": "sentence", "styles": []string{"a[0]", "a [ 0 ]", "\t a [\t0\n]\r\n"}, "Compile": "must succeed"})
	r.Sample(map[string]interface{}{"tokens": "a ( @ ) ( a )", "G": "not a sentence", "Compile": "must fail"})
	r.Sample(map[string]interface{}{"tokens": "[ 0", "G": "not a sentence (edit of [ 0 ])", "Compile": "must fail"})
	r.Evaluations = evals
	r.Traces = evals
	r.States = states
	r.Transitions = evals
	r.Nontrivial = sentences + nearMisses
	r.GapCases = gaps
	var distinct int64
	for _, o := range outcomes {
		if o > 0 {
			distinct++
		}
	}
	r.Note("sentences", sentences)
	r.Note("edit_neighbours", nearMisses)
	r.Note("verdict_counts", map[string]int64{"agree": outcomes[c04OK], "no_verdict_gap": outcomes[c04NoVerdict],
		"rejected_grammatical": outcomes[c04RejectedGrammatical], "accepted_ungrammatical": outcomes[c04AcceptedUngrammatical],
		"unusable": outcomes[c04Unusable], "compile_panic": outcomes[c04CompilePanic]})
	return harness.Coverage{Exhaustive: completedBlind == blindN && completedEdit == editW,
		Bounds:   map[string]interface{}{"blind_tokens": completedBlind, "structured_tokens": completedRich, "edit_sentence_weight": completedEdit, "alphabet": len(blindAlphabet), "structured_alphabet": len(richAlphabet)},
		Outcomes: distinct}
}

func kindKey(ks []model.Kind) string {
	b := make([]byte, len(ks))
	for i, k := range ks {
		b[i] = byte(k)
	}
	return string(b)
}
