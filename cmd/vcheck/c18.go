package main

import (
	"encoding/json"
	"fmt"
	"strings"
	"sync/atomic"

	"verif/harness"
	"verif/impl"
	"verif/model"
	"verif/snap"
	"verif/univ"
)

func init() { register("C18", checkC18) }

// Leaf and Node are the harness document types.
type Leaf struct {
	S string
	N float64
	B bool
}

type Node struct {
	Name string
	L    Leaf
	P    *Leaf
	Ls   []Leaf
	Ps   []*Leaf
	Strs []string
	Nums []float64
	Next *Node
}

// Meta is embedded (by value and by pointer) to exercise promoted fields.
type Meta struct {
	ID    float64
	Label string
}

type Emb struct {
	Meta
	Name string
	Kids []EmbP
}

type EmbP struct {
	*Meta
	Score float64
}

// meta has a lower-case (unexported) type name; its exported fields are still promoted.
type meta struct {
	Rev float64
	By  string
}

type EmbL struct {
	meta
	Title string
	Subs  []embLP
}

type embLP struct {
	*meta
	N float64
}

// Wrap holds a pointer; two Wraps with separately allocated, equal pointees are equal as JSON.
type Wrap struct {
	In  *Leaf
	Tag string
}

// Group / Team: slices of structs that themselves hold slices of structs (nested reflection paths).
type Group struct {
	Title   string
	Members []Leaf
}

type Team struct {
	Groups []Group
	Ptrs   []*Group
}

// Counts has unsigned and signed integer leaves (navigated, never compared: their JSON twin is a float).
// Rec2 embeds a pointer to a struct that itself embeds a pointer: fields promoted through two levels.
type Base2 struct {
	ID    float64
	Label string
}

type Mid2 struct {
	*Base2
	Score float64
}

type Rec2 struct {
	*Mid2
	Name string
}

// Dyn / DynItem: Go values that are not in JSON-canonical form.
type Dyn struct {
	Name string
	Kids []*DynItem
	Repo json.RawMessage
	ID   interface{}
}

// NumKinds: numeric slices of Go kinds other than float64.
type NumKinds struct {
	Ints  []int
	I64   []int64
	F32   []float32
	U8    []uint8
	Mixed []interface{}
	One   int
}

type DynItem struct {
	Name  string
	Attrs map[string]interface{}
	Tags  []interface{}
}

type Counts struct {
	U   uint
	U8  uint8
	I   int
	Us  []uint16
	Tag string
}

// Dz has a field whose first letter has a title case (ǅ) different from its upper case (Ǆ).
type Dz struct {
	Ǆep  string
	Ǉub  float64
	Name string
}

// defined types whose elements are already interfaces (what bson.A / bson.M look like)
type dynRow []interface{}
type dynObj map[string]interface{}

type Pair struct {
	A, B Wrap
	Ws   []Wrap
}

func leafVals() []Leaf {
	return []Leaf{{"x", 1, true}, {"", 0, false}}
}

// goDocs enumerates Node documents: every combination of nil / non-nil
// pointers, slice lengths 0..2 (non-nil), nil elements inside []*Leaf, two values
// per scalar leaf, Next depth <= 1; thinned deterministically in the quick tier.
func goDocs(thorough bool) []Node {
	ls := leafVals()
	var ptrs []*Leaf
	ptrs = append(ptrs, nil)
	for i := range ls {
		l := ls[i]
		ptrs = append(ptrs, &l)
	}
	var lss [][]Leaf
	lss = append(lss, []Leaf{}, []Leaf{ls[0]}, []Leaf{ls[1], ls[0]})
	var pss [][]*Leaf
	pss = append(pss, []*Leaf{}, []*Leaf{nil}, []*Leaf{ptrs[1]}, []*Leaf{ptrs[2], nil}, []*Leaf{nil, ptrs[1]}, []*Leaf{ptrs[1], ptrs[2]})
	strs := [][]string{{}, {"b"}, {"b", "a"}, {"", "é"}}
	nums := [][]float64{{}, {2}, {2, 1}}
	var flat []Node
	for _, name := range []string{"n", ""} {
		for li := range ls {
			for _, p := range ptrs {
				for _, l := range lss {
					for _, ps := range pss {
						for si, s := range strs {
							for ni, n := range nums {
								if !thorough && (si+ni+li)%3 != 0 {
									continue
								}
								flat = append(flat, Node{Name: name, L: ls[li], P: p, Ls: l, Ps: ps, Strs: s, Nums: n})
							}
						}
					}
				}
			}
		}
	}
	// Next: nil, or one of a few children
	out := append([]Node{}, flat...)
	step := len(flat)/7 + 1
	for i := 0; i < len(flat); i += step {
		child := flat[(i*31+5)%len(flat)]
		n := flat[i]
		n.Next = &child
		out = append(out, n)
		gc := flat[(i*17+3)%len(flat)]
		child2 := child
		child2.Next = &gc
		n2 := flat[(i+1)%len(flat)]
		n2.Next = &child2
		out = append(out, n2)
	}
	return out
}

func generic(v interface{}) interface{} {
	js, err := json.Marshal(v)
	if err != nil {
		return fmt.Sprintf("<unmarshalable: %v>", err)
	}
	var out interface{}
	json.Unmarshal(js, &out)
	return out
}

// lowerFirst lower-cases the first letter of every field reference (not hash
// keys, not function names).
func lowerFirst(toks []model.Tok) string {
	out := make([]model.Tok, len(toks))
	for i, t := range toks {
		out[i] = t
		if t.Kind != model.UID {
			continue
		}
		if i+1 < len(toks) && (toks[i+1].Kind == model.COLON || toks[i+1].Kind == model.LPAREN) {
			continue
		}
		out[i].Text = strings.ToLower(t.Text[:1]) + t.Text[1:]
	}
	return model.Spell(out, model.Tight)
}

func checkC18(r *harness.Run) harness.Coverage {
	r.Rule = "documents built from struct types (Leaf{S,N,B}, Node{Name,L,P *Leaf,Ls []Leaf,Ps []*Leaf,Strs []string,Nums []float64,Next *Node}): every combination of nil / non-nil pointers, non-nil slices of length 0..2, nil elements inside []*Leaf, two values per scalar, nesting through Next, by value and by pointer at the root, x all navigational expressions up to the weight bound over the field names (field, sub-expression, index, slice, flatten, [*], filters with truthiness conditions, multi-select, ||, &&, !, pipe, length()) in both capitalisations. Oracle: JSON-normalised Search(e, goValue) equals Search(e, JSON round trip of the value); both error or neither. No-panic half: every built-in applied to every typed slice / struct / pointer field. Non-trivial = generic result non-null or error; distinct by (expression, document)"
	r.Assumptions = []string{"the generic twin is the encoding/json round trip of the Go value (field names as keys)", "nil slices and maps are outside the property's domain (non-nil typed slices)"}
	maxW := 3
	if r.Thorough() {
		maxW = 4
	}
	f := &univ.Fragment{
		Idents:  univ.Tks("L", "P", "Ls", "Ps", "Strs", "Nums", "Next", "S", "N", "B", "Name"),
		Leaves:  univ.Tks("@"),
		Nums:    univ.Tks("0", "-1", "1", "-3", "2"),
		Slices:  [][]model.Tok{univ.Tks(":", ":", "-1"), univ.Tks("1", ":")},
		WildIdx: true, Flatten: true, Filter: true, Dot: true, Pipe: true, Or: true, And: true, Not: true,
		MaxList: 2, MaxHash: 1,
		Weight: univ.StructuralWeight,
	}
	g := univ.NewGen(f)
	var exprs, lowers []string
	for w := 1; w <= maxW; w++ {
		for _, s := range g.Sentences(w) {
			exprs = append(exprs, model.Spell(g.Tokens(s), model.Tight))
			lowers = append(lowers, lowerFirst(g.Tokens(s)))
		}
	}
	// length() of slices and strings (the property does not speak about length of a struct)
	for _, e := range []string{"length(Strs)", "length(Nums)", "length(Ls)", "length(Ps)", "length(Name)", "length(L.S)", "Next.length(Strs)", "Next.length(Name)",
		"Ls[*].length(S)", "Ps[*].length(S)", "length(Ls[0].S)", "length(Ps[0].S)", "length(Next.Ps)", "[length(Strs), length(Name)]", "Strs[*].length(@)", "length(Strs[1:])",
		"length(Ls[])", "length(Ps[])", "Ls[?length(S) > `0`].S", "length(Ls[*].S)", "length(Strs) > length(Nums)", "length(Strs[::-1])", "length(Ps[?S])"} {
		toks := univ.Lx(e)
		exprs = append(exprs, e)
		lowers = append(lowers, lowerFirst(toks))
	}
	// filters whose condition also holds for a null element (a nil *Leaf inside []*Leaf), bare and continued
	for _, e := range []string{"Ps[?!S]", "Ps[?!B]", "Ps[?S != 'zz']", "Ps[?N != `99`]", "Ps[?S == `null`]", "length(Ps[?!S])", "Ps[?!S] | length(@)", "Next.Ps[?!S]", "Ls[?!B]", "Ps[?@ == `null`]", "Ps[?!@]",
		"Ps[?S != 'zz'].S", "Strs[?@ != 'zz']", "Nums[?@ != `99`]", "Ps[?!S][0]", "Ps[?!S] == `[]`", "Ps[?!S || !N]", "Ps[?`true`]", "Ps[?`true`].S", "Ls[?`true`]", "Ps[?!S] | [0]", "[Ps[?!S], Ls[?!B]]"} {
		toks := univ.Lx(e)
		exprs = append(exprs, e)
		lowers = append(lowers, lowerFirst(toks))
	}
	docs := goDocs(r.Thorough())
	gens := make([]interface{}, len(docs))
	for i := range docs {
		gens[i] = generic(docs[i])
	}
	var pairs, nontriv, panics int64
	show := func(v interface{}, err error, pn *impl.Panic) string {
		if pn != nil {
			return pn.Error()
		}
		if err != nil {
			return "error: " + err.Error()
		}
		return model.Canon(generic(v))
	}
	harness.Parallel(len(exprs), func(wk, ei int) {
		text := exprs[ei]
		jp, cerr, pn := impl.Compile(text)
		if pn != nil || cerr != nil {
			r.Report(harness.Violation{Kind: "rejected-grammatical", Signature: "compile-error:" + text, Input: map[string]interface{}{"expression": text}, Expected: "compiles", Observed: fmt.Sprint(cerr, pn)})
			return
		}
		lower := lowers[ei]
		jpl, _, _ := impl.Compile(lower)
		reported := false
		for di := range docs {
			want, werr, wpn := impl.Search(jp, model.Copy(gens[di]))
			if wpn != nil {
				continue // generic documents are C01/C05's business
			}
			atomic.AddInt64(&pairs, 1)
			if werr != nil || want != nil {
				atomic.AddInt64(&nontriv, 1)
			}
			d := docs[di]
			for variant, doc := range []interface{}{d, &d, d} {
				cjp := jp
				if variant == 2 {
					cjp = jpl
					if cjp == nil {
						continue
					}
				}
				got, gerr, gpn := impl.Search(cjp, doc)
				ok := gpn == nil && (gerr != nil) == (werr != nil)
				if ok && gerr == nil {
					ok = model.DeepEqual(generic(got), generic(want))
				}
				if gpn != nil {
					atomic.AddInt64(&panics, 1)
				}
				if !ok && !reported {
					reported = true
					kind, sig := "wrong-value", "struct-navigation:"+text
					if gpn != nil {
						kind, sig = "panic", "search-panic:"+gpn.Site+":"+gpn.Class
					}
					js, _ := json.Marshal(d)
					r.Report(harness.Violation{Kind: kind, Signature: sig,
						Input:    map[string]interface{}{"expression": map[int]string{0: text, 1: text, 2: lower}[variant], "document_go": fmt.Sprintf("%+v", docSummary(d)), "document_json": string(js), "root": []string{"by value", "by pointer", "by value, lower-case names"}[variant]},
						Expected: show(want, werr, nil) + " (result on the equivalent generic JSON document)", Observed: show(got, gerr, gpn)})
				}
			}
		}
	})
	// embedded structs (promoted fields) and same-named struct types with different layouts searched with
	// ONE compiled expression (a per-expression field cache must key on the full type)
	var extraPairs int64
	{
		m1, m2 := Meta{7, "x"}, Meta{8, ""}
		embDocs := []interface{}{
			Emb{Meta: m1, Name: "n", Kids: []EmbP{{&m1, 2}, {nil, 0}, {&m2, 1}}},
			&Emb{Meta: m2, Name: "", Kids: []EmbP{}},
			struct {
				Name string
				ID   float64
			}{"p", 1},
			struct {
				ID   float64
				Name string
			}{2, "q"},
			struct {
				Label string
				Name  string
				ID    float64
			}{"l", "r", 3},
			&struct {
				ID    float64
				Label string
			}{4, "m"},
			map[string]interface{}{"Name": "generic", "ID": 5.0},
			EmbL{meta: meta{3, "z"}, Title: "t", Subs: []embLP{{&meta{1, "p"}, 1}, {nil, 2}}},
			&EmbL{meta: meta{4, ""}, Title: "", Subs: []embLP{}},
			Pair{A: Wrap{&Leaf{"x", 1, true}, "t"}, B: Wrap{&Leaf{"x", 1, true}, "t"}, Ws: []Wrap{{&Leaf{"x", 1, true}, "t"}, {&Leaf{"y", 2, false}, "t"}, {nil, ""}}},
			&Pair{A: Wrap{&Leaf{"x", 1, true}, "t"}, B: Wrap{&Leaf{"x", 2, true}, "t"}, Ws: []Wrap{}},
			Dz{"dz", 8, "n"}, &Dz{"", 0, ""},
			Team{Groups: []Group{{"g1", []Leaf{{"a0", 0, true}, {"a1", 1, false}, {"a2", 2, true}}}, {"g2", []Leaf{{"b0", 0, true}, {"b1", 1, true}}}, {"g3", []Leaf{}}},
				Ptrs: []*Group{{"p1", []Leaf{{"c0", 0, false}, {"c1", 1, true}}}, nil}},
			&Counts{3, 4, -5, []uint16{1, 2}, "c"},
			&EmbP{nil, 3}, []*EmbP{{nil, 1}, {&Meta{2, "l"}, 2}},
			// two levels of embedded pointers: all set, inner nil, outer nil
			Rec2{&Mid2{&Base2{1, "deep"}, 2}, "r1"}, &Rec2{&Mid2{nil, 3}, "r2"}, Rec2{nil, "r3"},
			[]Rec2{{&Mid2{&Base2{4, "a"}, 1}, "x"}, {&Mid2{nil, 2}, "y"}, {nil, "z"}}, []*Rec2{{&Mid2{nil, 5}, "p"}, nil},
			// a generic map holding Go structs and pointers to structs
			map[string]interface{}{"Name": "holder", "Repo": Leaf{"s", 7, true}, "Kids": []interface{}{&Leaf{"p", 1, false}, Leaf{"q", 2, true}}, "ID": &Meta{9, "m"}},
			// generic containers holding typed slices
			map[string]interface{}{"Name": "mixed", "Kids": []interface{}{[]string{"a", "b"}, []float64{1, 2}, []interface{}{[]string{"c"}}}, "ID": []string{"x", "y"}},
			// slices of slices, inside generic containers and as struct fields (one level of flatten removes ONE level)
			map[string]interface{}{"Name": "nest", "Kids": []interface{}{[][]string{{"a", "b"}, {"c"}}, "d", [][]float64{{1}, {2, 3}}}, "ID": [][]float64{{1}, {2, 3}}},
			struct {
				Name string
				Kids [][]string
				ID   []interface{}
			}{"rows", [][]string{{"a", "b"}, {}, {"c"}}, []interface{}{[][]string{{"e", "f"}}, []string{"g"}}},
			&struct {
				Name string
				Kids [][][]float64
				Subs []struct{ Rows [][]string }
			}{"cube", [][][]float64{{{1, 2}, {3}}, {{4}}}, []struct{ Rows [][]string }{{[][]string{{"a"}, {"b", "c"}}}, {[][]string{}}}},
			// two exported fields that are equal under case folding: a lookup must stay exact (after upper-casing the first letter)
			struct {
				ID   float64
				Id   string
				Name string
				NAME float64
			}{1, "x", "n", 2},
			&struct {
				Id   string
				ID   float64
				Kids []struct{ Id, ID string }
			}{"y", 3, []struct{ Id, ID string }{{"a", "b"}, {"c", "d"}}},
			// typed slices of every kind the property names, as struct fields, next to an erroring element
			struct {
				Name string
				Kids []string
				Subs []float64
				Ws   []*Leaf
			}{"fn", []string{"b", "a", "c"}, []float64{3, 1, 2}, []*Leaf{{"x", 2, true}, nil, {"y", 1, false}}},
			struct {
				Name string
				ID   float64
			}{"again", 6},
		}
		// (expression on the Go value, expression on the generic twin): lower-case spellings must find the
		// same field; access *through the name of the embedded struct* is not part of the JSON form and is left out
		embExprs := [][2]string{}
		for _, e := range []string{"ID", "Name", "Label", "Kids[*].ID", "Kids[*].Label", "Kids[?Score > `1`].Label", "Kids[?ID].Score", "ID || Name", "[ID, Name, Label]", "{i: ID, n: Name}", "Kids[0].ID", "Kids[1].ID", "Kids[-1].Label",
			"length(Kids)", "Kids[].ID", "Kids[*].[ID, Score]", "not_null(ID, Name)", "Kids[::-1][*].ID", "Kids[1]", "Kids[1].[ID]", "Kids[*].Score",
			"Rev", "By", "Title", "Subs[*].Rev", "Subs[*].By", "Subs[?N > `1`].Rev", "Subs[0].By", "Subs[1].Rev", "[Rev, By, Title]", "Subs[].N", "Rev || Title",
			"Kids[0]", "Kids[2][0]", "Kids[]", "Kids[*][0]", "ID[0]", "Id", "[Id, ID]", "Kids[*].Id", "Kids[*].[Id, ID]", "NAME", "[Name, NAME]", "{a: Id, b: ID}", "Kids[?Id == 'a'].ID",
			// built-ins over typed slices agree with the generic form (value and error-ness), zero steps and erroring right-hand sides included
			"type(Kids)", "to_array(Kids)", "to_number(Kids)", "contains(Kids, 'a')", "contains(Subs, `1`)", "sort(Kids)", "sort(Subs)", "max(Kids)", "min(Subs)", "sum(Subs)", "avg(Subs)", "join(',', Kids)", "reverse(Kids)", "reverse(Subs)", "length(Subs)",
			"not_null(Kids)", "map(&@, Kids)", "sort_by(Kids, &@)", "max_by(Subs, &@)", "[sort(Kids), join('-', Kids)]", "[sort(Subs), Subs[0]]", "Kids[::0]", "Subs[::0]", "Kids[?@ == 'a'].abs(@)", "Subs[?@ > `1`].length(@)",
			"Kids[*].abs(@)", "Ws[?S == 'x'].abs(S)", "Kids[::-1]", "to_array(Kids[0])", "contains(Ws[*].S, 'y')", "Kids[?@ == 'zz']", "Subs[?@ > `9`]", "Ws[?N > `9`].S", "{e: Kids[?@ == 'zz'], f: Subs[?@ > `9`]}", "to_string(Kids[?@ == 'zz'])", "Kids[?@ == 'zz'] == `[]`",
			"Kids[][]", "[Kids][]", "Kids[*][]", "ID[]", "ID[][]", "Kids[0][]", "[ID][]", "[ID[0]][]", "Kids[][][]", "Subs[*].Rows[]", "Subs[].Rows[]", "Subs[*].Rows[][]", "[Subs[0].Rows][]", "Subs[0].Rows[]", "Kids[] | [0]", "Kids[*][*]", "Kids[*][0][]", "length(Kids[])", "Kids[1:][]",
			// comparisons of whole Go values of the same type (filter conditions compare what navigation returns)
			"\"Ǆep\"", "\"Ǉub\"", "[\"Ǆep\", Name]", "Repo.S", "Repo.N", "Kids[*].S", "Kids[1].N", "ID.Label", "Kids[?B].S", "Repo",
			"Groups[:].Members[:].S", "Groups[*].Members[*].S", "Groups[:].Members[1:].N", "Groups[].Members[].S", "Groups[::-1].Members[::-1].S", "Ptrs[:].Members[:].S", "Groups[:2].Members[:2].S",
			"Groups[?Members].Title", "Groups[*].Members[?B].S", "length(Groups[0].Members)", "Groups[*].Title",
			"U", "U8", "I", "Us", "Us[0]", "[U, I, Tag]", "{u: U, t: Tag}", "length(Us)", "Us[::-1]", "Tag || U",
			"Score", "[ID, Score]", "[*].ID", "[*].Score", "[?Score > `1`].Label", "[1].Label", "[*].Label", "[?!ID].Name", "[?ID].Name", "[*].[ID, Score, Name]", "[ID, Label, Score, Name]", "[1].ID", "[2].Score", "[-1].Name",
			"A == B", "A != B", "A.In == B.In", "Ws[?@ == A].Tag", "Ws[0] == A", "Ws[1] == A", "Ws[?In.S == 'x'].Tag", "Ws[?In.N > `1`].In.S", "A.In.S == B.In.S", "[A == B, A.Tag == B.Tag]", "Ws[2].In == `null`"} {
			embExprs = append(embExprs, [2]string{e, e}, [2]string{lowerFirst(univ.Lx(e)), e})
		}
		// built-ins over these documents: only "no panic, no modification" is demanded (marked by an empty twin)
		for _, e := range []string{"contains(Kids, ID)", "contains(Kids[2], Kids[0])", "contains(Kids, `[\"a\",\"b\"]`)", "length(Kids[0])", "contains(@, Kids)", "sort_by(Kids, &ID)", "max_by(Subs, &N)",
			"map(&@, Kids)", "reverse(Kids)", "to_array(Kids[0])", "merge(@, @)", "keys(@)", "values(@)", "not_null(Kids[1], ID)", "join(',', ID)", "contains(ID, 'x')", "type(Kids)", "to_string(@)",
			// object wildcards over structs (unsupported or not: never a panic, also with nil embedded pointers)
			"*", "@.*", "[*].*", "Kids[*].*", "map(&*, Kids)", "map(&*, @)", "length(*)", "*.ID", "Kids[0].*", "Subs[*].*", "[0].*", "* | [0]", "to_array(*)", "Ws[*].*", "A.*", "Ptrs[*].*", "[].*"} {
			embExprs = append(embExprs, [2]string{e, ""})
		}
		// non-ASCII first letters: the lower-case spelling must find the field through its UPPER case
		embExprs = append(embExprs, [2]string{"\"ǆep\"", "\"Ǆep\""}, [2]string{"\"ǉub\"", "\"Ǉub\""}, [2]string{"[\"ǆep\", name]", "[\"Ǆep\", Name]"})
		// erroring calls over typed slices must be errors as on the generic form (not swallowed, not panics)
		for _, e := range []string{"Kids[*].abs(@)", "ID[*].abs(@)", "Subs[*].nosuch(@)", "Ws[*].abs(Tag)", "Kids[*].length(@, @)", "Ws[?In].abs(Tag)", "Kids[].abs(@)"} {
			embExprs = append(embExprs, [2]string{e, e})
		}
		for _, pair := range embExprs {
			text := pair[0]
			jp, cerr, pn := impl.Compile(text)
			if pn != nil || cerr != nil {
				continue
			}
			for round := 0; round < 2; round++ { // the same compiled expression over all documents, twice
				for di, d := range embDocs {
					gen := generic(d)
					if _, isMap := d.(map[string]interface{}); isMap && pair[1] != "" && pair[0] != pair[1] {
						continue // generic maps are matched by exact key; capitalisation applies to struct fields only
					}
					want, werr, wpn := impl.SearchOnce(pair[1], gen)
					before := snap.Roots{{Name: "doc", V: d}}.Hash()
					got, gerr, gpn := impl.Search(jp, d)
					extraPairs++
					if after := (snap.Roots{{Name: "doc", V: d}}).Hash(); after != before {
						js, _ := json.Marshal(gen)
						r.Report(harness.Violation{Kind: "doc-mutated", Signature: "go-document-modified:" + text,
							Input:    map[string]interface{}{"expression": text, "document_go_type": fmt.Sprintf("%T", d), "document_json_before": string(js)},
							Expected: "Search does not modify a Go-typed document either", Observed: "deep snapshot of the Go value differs after the call: " + strings.Join(snap.Lines2(d), "; ")})
						break
					}
					if wpn != nil {
						continue
					}
					if pair[1] == "" {
						if gpn != nil {
							js, _ := json.Marshal(gen)
							r.Report(harness.Violation{Kind: "panic", Signature: "search-panic:" + gpn.Site + ":" + gpn.Class,
								Input: map[string]interface{}{"expression": text, "document_go_type": fmt.Sprintf("%T", d), "document_json": string(js)}, Expected: "a value or an error", Observed: gpn.Error(), Site: gpn.Site})
							break
						}
						continue
					}
					ok := gpn == nil && (gerr != nil) == (werr != nil) && (gerr != nil || model.DeepEqual(generic(got), generic(want)))
					if !ok {
						kind, sig := "wrong-value", "struct-navigation:"+text
						if gpn != nil {
							kind, sig = "panic", "search-panic:"+gpn.Site+":"+gpn.Class
						}
						js, _ := json.Marshal(d)
						r.Report(harness.Violation{Kind: kind, Signature: sig,
							Input:    map[string]interface{}{"expression": text, "document_go_type": fmt.Sprintf("%T", d), "document_json": string(js), "position_in_sequence": round*len(embDocs) + di, "note": "one compiled expression searched over documents of several struct types in sequence"},
							Expected: show(want, werr, nil) + " (result on the equivalent generic JSON document)", Observed: show(got, gerr, gpn)})
						break
					}
				}
			}
		}
	}
	// documents whose Go values are NOT in JSON-canonical form (ints inside interface{} fields, json.RawMessage
	// members) reached through pointers: only "no panic, no modification" is demanded - a library that decodes,
	// normalises or round-trips what it is handed must do so on its own copy
	{
		mk := func() []interface{} {
			return []interface{}{
				&Dyn{Name: "dyn", Kids: []*DynItem{{"a", map[string]interface{}{"cpu": 2, "on": true}, []interface{}{1, "x", int64(3)}}, {"b", map[string]interface{}{"cpu": uint8(4)}, []interface{}{7}}, nil},
					Repo: json.RawMessage(`{"a": {"b": 1}, "S": "v"}`), ID: 7},
				Dyn{Name: "val", Kids: []*DynItem{{"c", map[string]interface{}{}, []interface{}{}}}, Repo: json.RawMessage(`[1, 2]`), ID: int32(-1)},
				map[string]interface{}{"Name": "raw", "Repo": json.RawMessage(`{"S": "v", "a": [1]}`), "ID": 3, "Kids": []interface{}{json.RawMessage(`[1]`), &DynItem{"d", map[string]interface{}{"cpu": 1}, []interface{}{2}}}},
				[]*DynItem{{"e", map[string]interface{}{"cpu": 9}, []interface{}{int8(1)}}},
				&NumKinds{Ints: []int{3, 1, 2}, I64: []int64{-1, 5}, F32: []float32{1.5, 0.25}, U8: []uint8{7, 8, 9}, Mixed: []interface{}{1.0, 2, int64(3)}, One: 4},
				NumKinds{Ints: []int{}, I64: []int64{9}, F32: []float32{}, U8: []uint8{}, Mixed: []interface{}{}, One: 0},
				// typed nil pointers directly inside generic containers and as the root
				map[string]interface{}{"Name": "nilp", "ID": (*float64)(nil), "Kids": []interface{}{(*string)(nil), (*DynItem)(nil), "s"}, "Repo": (*[]string)(nil), "One": (*map[string]interface{})(nil)},
				[]interface{}{(*float64)(nil), 1.0, (*DynItem)(nil)}, (*float64)(nil), (*DynItem)(nil),
				// defined slice / map types whose elements are already interfaces, and typed slices as members
				map[string]interface{}{"Name": "defd", "Kids": dynRow{map[string]interface{}{"Name": "r1", "Tags": dynRow{"x", "y"}, "ID": 2.0}, dynObj{"Name": "r2", "Tags": []string{"z"}, "ID": 1.0}}, "Repo": dynObj{"a": dynRow{1.0, 2.0}}, "ID": []string{"b", "a"},
					"Ints": []interface{}{map[string]interface{}{"Name": "db", "Tags": []string{"p", "q"}, "One": 3.0}, map[string]interface{}{"Name": "web", "Tags": []string{}, "One": 1.0}}},
				dynRow{dynObj{"Name": "e1", "ID": 2.0}, dynObj{"Name": "e0", "ID": 1.0}},
				// raw JSON as the root: a sort_by that fails on it, followed by ordinary documents (the next entries)
				json.RawMessage(`[{"Name": "a", "ID": "x"}, {"Name": "b", "ID": 1}]`),
				[]interface{}{map[string]interface{}{"Name": "b", "ID": 2.0}, map[string]interface{}{"Name": "a", "ID": 1.0}},
				map[string]interface{}{"Kids": []interface{}{map[string]interface{}{"Name": "b", "ID": 2.0}, map[string]interface{}{"Name": "a", "ID": 1.0}}, "Ints": []interface{}{3.0, 1.0, 2.0}},
			}
		}
		dynExprs := []string{}
		for _, f := range []string{"Ints", "I64", "F32", "U8", "Mixed"} {
			for _, c := range []string{"avg(%s)", "sum(%s)", "max(%s)", "min(%s)", "sort(%s)", "reverse(%s)", "length(%s)", "join(',', %s)", "abs(%s[0])", "to_string(%s)", "contains(%s, `1`)", "map(&@, %s)", "%s[0]", "%s[?@ > `1`]", "%s[::-1]",
				"sort_by(%s, &@)", "max_by(%s, &@)", "to_array(%s)", "not_null(%s)", "%s[*].abs(@)", "ceil(%s[0])", "%s == %s", "[%s, %s][]", "to_number(%s[0])", "type(%s[0])", "avg(%s) > One", "sum(%s[1:])"} {
				dynExprs = append(dynExprs, strings.Replace(c, "%s", f, -1))
			}
		}
		dynExprs = append(dynExprs, "abs(One)", "One > `1`", "[One, Ints]", "sum([One, One])", "avg([Ints[0], I64[0]])", "max([One, U8[0]])")
		for _, text := range append([]string{"to_string(@)", "Kids[*].to_string(@)", "to_string(Kids[0])", "Repo", "Repo.a", "Repo.S", "[ID, Repo]", "length(Repo)", "type(Repo)", "Kids[*].type(@)", "Kids[*].not_null(@)", "values(@)", "keys(@)",
			"Kids[*].Attrs", "Kids[*].Attrs.cpu", "Kids[*].Tags[0]", "Kids[].Tags[]", "ID", "abs(ID)", "Kids[*].Attrs.cpu | sum(@)", "max_by(Kids, &Attrs.cpu)", "sort_by(Kids, &Name)", "map(&Name, Kids)", "to_array(@)", "to_array(Kids[0])",
			"merge(Kids[0].Attrs, Kids[1].Attrs)", "contains(Kids[0].Tags, `1`)", "Kids[0] == Kids[0]", "Kids[?Attrs.cpu > `1`].Name", "[*].Name", "[*].to_string(@)", "[0].Attrs", "not_null(Repo, ID)", "Kids[1]", "Kids[1].Repo", "Kids[0][0]",
			"@", "Ints[1:]", "Ints", "max_by(Ints, &One)", "Ints[?Name == 'db'] | [0]", "Ints[0]", "Kids[*].ID", "Kids[*].Tags[]", "Kids[*].Name", "[*].ID", "[*].Name", "Kids[*]", "Kids[]", "Ints[*].Tags", "{k: Kids, i: Ints}", "[Kids, Ints]", "Kids || Ints",
			"sort_by(@, &ID)", "sort_by(@, &ID)[0]", "sort_by(Kids, &ID)", "sort_by(Kids, &Name)[0].Name", "sort(Ints)", "max_by(@, &ID)", "reverse(@)", "abs(ID)", "length(Repo)", "keys(ID)", "keys(One)", "sort_by(Kids, &@)", "Kids[*].length(@)", "type(ID)",
			"ID || Name", "Kids[0]", "max(Kids)", "join(',', Kids)", "contains(Kids, ID)", "merge(@, ID)", "to_array(ID)", "ID == `null`", "[?ID]", "map(&@, Kids)", "avg(Kids)", "sum(Kids)", "reverse(Repo)", "starts_with(ID, 'a')", "ceil(ID)", "*", "abs(@)", "length(@)", "[0]", "[*]", "[]", "abs([0])", "[*].abs(@)", "keys(@)", "not_null(@)", "to_string(@)", "@ == `null`", "!@",
			"length(Kids)", "reverse(Kids)", "Kids[::-1]", "{r: Repo, k: Kids}", "Repo || ID", "Repo[0]", "Repo[*]", "Repo[]", "join(',', Kids[*].Name)", "to_number(ID)", "to_string(ID)", "Kids[*].Tags | [0]"}, dynExprs...) {
			jp, cerr, pn := impl.Compile(text)
			if pn != nil || cerr != nil {
				continue
			}
			for round := 0; round < 2; round++ {
				for _, d := range mk() {
					before := snap.Roots{{Name: "doc", V: d}}
					bh, bl := before.Hash(), before.Lines()
					_, _, gpn := impl.Search(jp, d)
					extraPairs++
					if after := (snap.Roots{{Name: "doc", V: d}}); after.Hash() != bh {
						r.Report(harness.Violation{Kind: "doc-mutated", Signature: "go-document-modified:" + text,
							Input:    map[string]interface{}{"expression": text, "document_go_type": fmt.Sprintf("%T", d)},
							Expected: "Search does not modify a Go-typed document either", Observed: "deep snapshot of the Go value differs after the call: " + strings.Join(snap.Diff(bl, after.Lines()), "; ")})
						break
					}
					if gpn != nil {
						r.Report(harness.Violation{Kind: "panic", Signature: "search-panic:" + gpn.Site + ":" + gpn.Class,
							Input: map[string]interface{}{"expression": text, "document_go_type": fmt.Sprintf("%T", d)}, Expected: "a value or an error", Observed: gpn.Error(), Site: gpn.Site})
						break
					}
				}
			}
		}
	}
	// the caller changes a typed document in place between two searches with the same compiled expression:
	// the second answer must reflect the new contents (no stale per-slice memo)
	for _, text := range []string{"Ls[?N > `0`].S", "Ls[*].S", "Ls[0].S", "Ps[*].N", "Strs[0]", "Nums[?@ > `1`]", "length(Strs)", "Ls[].S", "Ls[::-1][*].N"} {
		jp, cerr, pn := impl.Compile(text)
		if pn != nil || cerr != nil {
			continue
		}
		d := &Node{Name: "n", Ls: []Leaf{{"x", 1, true}, {"y", 0, false}}, Ps: []*Leaf{{"p", 1, true}}, Strs: []string{"b", "a"}, Nums: []float64{1, 2}}
		for step := 0; step < 3; step++ {
			switch step {
			case 1:
				d.Ls[0].S, d.Ls[1].N, d.Ps[0].N, d.Strs[0], d.Nums[0] = "changed", 5, 9, "z", 7
			case 2:
				d.Ls[1] = Leaf{"again", 3, true}
				d.Nums[1] = 0
			}
			want, werr, _ := impl.SearchOnce(text, generic(d))
			got, gerr, gpn := impl.Search(jp, d)
			extraPairs++
			if gpn != nil || (gerr != nil) != (werr != nil) || (gerr == nil && !model.DeepEqual(generic(got), generic(want))) {
				js, _ := json.Marshal(d)
				r.Report(harness.Violation{Kind: "wrong-value", Signature: "struct-navigation-after-caller-update:" + text,
					Input:    map[string]interface{}{"expression": text, "document_json_now": string(js), "step": step, "note": "the caller modified elements of the document's typed slices in place between the searches"},
					Expected: show(want, werr, nil), Observed: show(got, gerr, gpn)})
				break
			}
		}
	}
	// no-panic half: every built-in on every typed field
	var calls int64
	fields := []string{"@", "Name", "L", "P", "Ls", "Ps", "Strs", "Nums", "Next", "Ls[0]", "Ps[0]", "L.N", "Nums[0]"}
	var callExprs []string
	for _, fn := range model.FunctionNames() {
		for _, a := range fields {
			callExprs = append(callExprs, fn+"("+a+")")
			for _, b := range []string{"Strs", "Ps", "&S", "&N", "&@", "`1`", "Name", "L"} {
				callExprs = append(callExprs, fn+"("+a+", "+b+")", fn+"("+b+", "+a+")")
			}
		}
	}
	for _, ctx := range []string{"Ls[*].%s", "Ps[?%s]", "[%s]", "Next.%s"} {
		for _, c := range []string{"length(@)", "keys(@)", "to_array(@)", "to_string(@)", "type(@)", "not_null(@)", "values(@)", "reverse(@)", "sort(@)", "max(@)"} {
			callExprs = append(callExprs, strings.Replace(ctx, "%s", c, -1))
		}
	}
	step := 1
	if !r.Thorough() {
		step = 7
	}
	harness.Parallel(len(callExprs), func(wk, ei int) {
		text := callExprs[ei]
		jp, cerr, pn := impl.Compile(text)
		if pn != nil || cerr != nil {
			return
		}
		for di := ei % step; di < len(docs); di += step {
			d := docs[di]
			for vi, doc := range []interface{}{d, &d} {
				var before snap.Digest
				if vi == 1 {
					before = snap.Roots{{Name: "doc", V: doc}}.Hash()
				}
				_, _, gpn := impl.Search(jp, doc)
				atomic.AddInt64(&calls, 1)
				if vi == 1 && gpn == nil {
					if after := (snap.Roots{{Name: "doc", V: doc}}).Hash(); after != before {
						js, _ := json.Marshal(docs[di])
						r.Report(harness.Violation{Kind: "doc-mutated", Signature: "go-document-modified:" + text,
							Input:    map[string]interface{}{"expression": text, "document_json_before": string(js)},
							Expected: "Search does not modify a Go-typed document", Observed: "deep snapshot of the Go value (reached through a pointer) differs after the call: " + strings.Join(snap.Lines2(doc), "; ")})
						return
					}
				}
				if gpn != nil {
					js, _ := json.Marshal(d)
					r.Report(harness.Violation{Kind: "panic", Signature: "search-panic:" + gpn.Site + ":" + gpn.Class,
						Input: map[string]interface{}{"expression": text, "document_json": string(js)}, Expected: "a value or an error", Observed: gpn.Error(), Site: gpn.Site})
					return
				}
			}
		}
	})
	r.Note("embedded_and_mixed_type_pairs", extraPairs)
	r.Evaluations = pairs*4 + calls
	r.Traces = pairs*3 + calls
	r.States = pairs
	r.Transitions = pairs*4 + calls
	r.Nontrivial = nontriv
	r.Note("navigational_expressions", len(exprs))
	r.Note("documents", len(docs))
	r.Note("function_calls_on_typed_data", calls)
	r.Note("panics_seen", panics)
	if len(exprs) > 10 {
		js, _ := json.Marshal(docs[len(docs)/2])
		r.Sample(map[string]interface{}{"expression": exprs[len(exprs)/2], "document_json": string(js)})
		r.Sample(map[string]interface{}{"expression": exprs[len(exprs)/3], "root": "by pointer"})
	}
	return harness.Coverage{Exhaustive: true, Bounds: map[string]interface{}{"expression_weight": maxW, "documents": len(docs)}, Outcomes: 2}
}

func docSummary(d Node) string {
	js, _ := json.Marshal(d)
	return string(js)
}
