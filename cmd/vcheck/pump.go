package main

import (
	"strings"

	"verif/harness"
)

// Pumped sentence families: pre + open^k + mid + close^k + post, the semantic
// counterpart of C05's pumping family. A construct repeated k times (nested or in a
// row) inside ONE expression is the systematic way to reach per-parse counters,
// nesting limits and scratch buffers that are not restored on some path; k ranges
// over a fixed list of sizes around the usual powers of two plus every integer
// literal of the current tree with its neighbours (harness.Sizes). Every family is
// parsed by the reference parser and evaluated by the reference evaluator like
// any other sentence.
type pumpFam struct{ pre, open, mid, close, post string }

var pumpBase = []int{1, 2, 3, 4, 5, 8, 16, 17, 31, 32, 33, 63, 64, 65, 100, 127, 128, 129, 255, 256, 257, 300, 511, 512, 513, 1000, 1023, 1024, 1025, 2000}

func pumpKs(max int) []int { return harness.Sizes(pumpBase, 1, max) }

func (f pumpFam) text(k int) string {
	return f.pre + strings.Repeat(f.open, k) + f.mid + strings.Repeat(f.close, k) + f.post
}

func pumpExprs(fams []pumpFam, ks []int) []exprCase {
	var out []exprCase
	seen := map[string]bool{}
	for _, f := range fams {
		for _, k := range ks {
			t := f.text(k)
			if seen[t] {
				continue
			}
			seen[t] = true
			out = append(out, exprFromText(t))
		}
	}
	return out
}

// seqFam: pre + item (sep item)^(k-1) + post, e.g. a k-member multi-select list.
func seqFam(pre, item, sep, post string) func(k int) string {
	return func(k int) string {
		return pre + strings.Repeat(item+sep, k-1) + item + post
	}
}

func seqExprs(fams []func(k int) string, ks []int) []exprCase {
	var out []exprCase
	seen := map[string]bool{}
	for _, f := range fams {
		for _, k := range ks {
			t := f(k)
			if seen[t] {
				continue
			}
			seen[t] = true
			out = append(out, exprFromText(t))
		}
	}
	return out
}

// Families over the core constructs (C01): each is the identity on, or a simple
// function of, the value of a / b, so that a wrong answer is visible on small documents.
var pumpCore = []pumpFam{
	{"", "(", "a", ")", ""},                 // redundant parentheses
	{"", "(", "a", ")", ".b"},               // ... followed by a step
	{"b | ", "(", "a", ")", ""},             // nesting on the right of a pipe
	{"", "[", "a", "]", ""},                 // nested one-member lists
	{"", "[", "a", "][0]", ""},              // wrap and unwrap
	{"", "{x: ", "a", "}.x", ""},            // nested one-member hashes, unwrapped
	{"", "{x: ", "a", "}", ""},              // nested hashes
	{"@", ".[@][0]", "", "", ".a"},          // dot-introduced list, then index, in a row
	{"@", ".{x: @}.x", "", "", ".a"},        // dot-introduced hash, then field, in a row
	{"@", " | @", "", "", " | a"},           // pipes in a row
	{"a", " || a", "", "", ""},              // ors in a row
	{"a", " && a", "", "", ""},              // ands in a row
	{"b", " || a", "", "", ""},              //
	{"", "!", "a", "", ""},                  // nots in a row
	{"", "!(", "a", ")", ""},                // nested nots
	{"", "to_array(", "a", ")", ""},         // nested calls (idempotent)
	{"", "not_null(", "a", ")", ""},         //
	{"", "not_null(b, ", "a", ")", ""},      // nested calls, two arguments
	{"", "[b, ", "a", "]", ""},              // nested two-member lists
	{"", "{x: b, y: ", "a", "}", ""},        // nested two-member hashes
	{"a", "[0]", "", "", ""},                // indices in a row
	{"a", "[-1]", "", "", ""},               //
	{"c", ".c", "", "", ""},                 // fields in a row (documents nest c a few levels)
	{"a", " == a", "", "", ""},              // comparators in a row (left-associative)
	{"", "[", "`1`", "]", ""},               // nested literals lists
	{"'x'", " | 'x'", "", "", ""},           // raw strings in a row
	{"", "(", "@", ")", " == a"},            //
	{"a.", "[", "@", "][0]", ""},            // dot rhs list nesting
	{"", "length(to_array(", "a", "))", ""}, // two-call nesting (always 1)
}

var pumpCoreSeq = []func(k int) string{
	seqFam("[", "a", ", ", "]"),              // k-member list
	seqFam("[", "a.[b]", ", ", "]"),          // k members each a dot-list
	seqFam("[", "a.{x: b}", ", ", "]"),       // k members each a dot-hash
	seqFam("[", "[a]", ", ", "]"),            // k members each a list
	seqFam("[", "(a)", ", ", "]"),            // k parenthesised members
	seqFam("[", "!a", ", ", "]"),             //
	seqFam("[", "a | b", ", ", "]"),          //
	seqFam("[", "a || b", ", ", "]"),         //
	seqFam("[", "a == b", ", ", "]"),         //
	seqFam("[", "a[0]", ", ", "]"),           //
	seqFam("[", "to_array(a)", ", ", "]"),    // k calls
	seqFam("[", "not_null(b, a)", ", ", "]"), //
	seqFam("[", "'x'", ", ", "]"),            // k raw strings
	seqFam("[", "`[1]`", ", ", "]"),          // k literals
	seqFam("[", "\"a\"", ", ", "]"),          // k quoted identifiers
	seqFam("not_null(", "b", ", ", ", a)"),   // k+1 arguments
	seqFam("a.[", "@", ", ", "]"),            //
}

// Families over projections (C02). Object wildcards are left out: k unordered iterations in one
// expression have 2^k admissible outcomes (the reference evaluator enumerates member orders).
var pumpProj = []pumpFam{
	{"a", "[]", "", "", ""},         // flattens in a row
	{"a", " | []", "", "", ""},      // piped flattens
	{"a", "[*]", "", "", ""},        // nested list wildcards
	{"a[*]", ".[@][0]", "", "", ""}, // long right-hand side
	{"a[*]", " | @", "", "", ""},    // pipes after a projection
	{"a", "[?@]", "", "", ""},       // filters in a row
	{"a", " | [?@]", "", "", ""},    //
	{"a", "[:]", "", "", ""},        // slices in a row
	{"a", " | [:]", "", "", ""},     //
	{"a", " | [*]", "", "", ""},     //
	{"", "(", "a[*]", ")", "[0]"},   // a closed projection, then an index
	{"", "(", "a[]", ")", ""},       //
	{"", "[", "a[*]", "]", ""},      // projection nested in lists
	{"a[*].", "[", "@", "][0]", ""}, // nested lists as right-hand side
	{"a[?", "(", "@", ")", "]"},     // nested parentheses in a filter condition
	{"a[?", "!", "@", "", "]"},      //
	{"a", "[*] | @", "", "", ""},    //
	{"a[*]", "[0]", "", "", ""},     // indices as right-hand side
	{"a[]", ".c", "", "", ""},       //
}

var pumpProjSeq = []func(k int) string{
	seqFam("[", "a[]", ", ", "]"),     // k bare flattens as siblings
	seqFam("[", "a[*]", ", ", "]"),    // k bare wildcards
	seqFam("[", "a[?@]", ", ", "]"),   // k bare filters
	seqFam("[", "a[:]", ", ", "]"),    // k bare slices
	seqFam("[", "a[*].b", ", ", "]"),  // k projections with a right-hand side
	seqFam("[", "a[].b", ", ", "]"),   //
	seqFam("[", "a[?b].b", ", ", "]"), //
	seqFam("[", "a[0][]", ", ", "]"),  //
	seqFam("[", "[]", ", ", "]"),      // k flattens of the current node
}
