package main

import (
	"math"
	"strings"

	"verif/harness"
	"verif/impl"
	"verif/model"
	"verif/univ"
)

func init() { register("C09", checkC09) }

// arraysOver enumerates all arrays of length 0..maxLen over elems.
func arraysOver(elems []interface{}, maxLen int) []interface{} {
	out := []interface{}{[]interface{}{}}
	for n := 1; n <= maxLen; n++ {
		tuples(len(elems), n, func(ix []int) {
			a := make([]interface{}, n)
			for i, k := range ix {
				a[i] = elems[k]
			}
			out = append(out, a)
		})
	}
	return out
}

type c09Group struct {
	calls []string        // expression texts over fields a, b, c
	sets  [][]interface{} // value set for a, b, c (len = number of fields used)
}

// callContexts places a call in the contexts of the C06 list.
var callContexts = []string{"%s", "@ | %s", "[%s]", "{x: %s}", "[@][*].%s", "[@][?%s]", "map(&%s, [@])", "(%s)", "!%s", "%s || `0`"}

func checkC09(r *harness.Run) harness.Coverage {
	r.Rule = "for each of the 26 built-ins every well-typed argument tuple from a typed universe (numbers {-1.5,-1,-0.5,0,0.5,1,2,2.5}; 12 strings incl. multi-byte and numeric-looking; all arrays up to the length bound over 4 numbers / 4 strings incl. duplicates and all orders; arrays of {k,t} objects with tied keys and distinguishable tags; objects with colliding keys; heterogeneous arrays), supplied through document fields, standalone and in 10 contexts; to_number over all strings of <=3 symbols from {0,1,-,+,.,e,x,_,space,a,inf,nan}. Oracle: reference function definitions; to_string by decode-back; to_number per gap G5 (JSON number => that number, no digit => null, otherwise null or finite). Non-trivial = reference outcome non-null or error; distinct by (expression, document)"
	r.Assumptions = []string{"function semantics: model/eval.go from the JMESPath function specification", "value universe bounded as stated; numbers are dyadic so sums are exact"}
	maxLen := 6
	if r.Thorough() {
		maxLen = 7
	}
	nums := univ.Js(`-1.5`, `-1`, `-0.5`, `0`, `0.5`, `1`, `2`, `2.5`)
	strs := univ.Js(`""`, `"a"`, `"b"`, `"ab"`, `"ba"`, `"é"`, `"日本"`, `"a😀"`, `"1"`, `"1.5"`, `"-2e1"`, `"x1"`, `"x\ufffdy"`, `"\\u003c<&"`)
	strs3 := univ.Js(`""`, `", "`, `"é"`)
	numArrays := arraysOver(univ.Js(`-1`, `1`, `2`, `2.5`), maxLen)
	strArrays := arraysOver(univ.Js(`""`, `"a"`, `"b"`, `"ab"`), maxLen)
	uniArrays := arraysOver(univ.Js(`"é"`, `"z"`, `"日"`, `"😀"`, `"e"`), 2)
	// strings that share a multi-byte prefix and differ after it (byte offset vs code-point index)
	uniArrays = append(uniArrays, arraysOver(univ.Js(`"éb"`, `"éa"`, `"éc"`, `"é"`, `"😀b"`, `"😀a"`), 3)...)
	anys := univ.Js(`null`, `true`, `false`, `0`, `1`, `-0.5`, `"a"`, `""`, `"é\"\\"`, `[]`, `[1]`, `[[1]]`, `[null]`, `{}`, `{"a":1}`, `{"b":[1,{"c":null}]}`, `1e21`, `1e-7`, `[1.5,"x"]`, `["lit \\u003c <", {"\\u0026": "&"}]`)
	// control characters, DEL and the line separators NESTED in containers (to_string must produce JSON text for them too)
	anys = append(anys, univ.Js(`["\u0001\u0007\u000b\u007f"]`, `{"\u0001": "\u001f\u0000", "k": ["\u2028\u2029", "\u001b[0m"]}`, `"\u0001\u007f"`, `[["\b\f\n\r\t\u000e"]]`)...)
	hetero := arraysOver(univ.Js(`null`, `1`, `"a"`, `[1]`, `{"a":1}`, `true`), 3)
	// objects of equal size with different key sets, null under the extra key; nested
	objElems := univ.Js(`{"a":null}`, `{"b":null}`, `{"a":null,"b":1}`, `{"b":1,"c":2}`, `{"a":1,"b":null}`, `{"a":{"a":null}}`, `{"a":{"b":null}}`, `[{"a":null}]`, `[{"b":null}]`, `{}`, `null`)
	objHay := arraysOver(objElems, 2)
	var objArrays []interface{}
	for _, keys := range [][]interface{}{univ.Js(`1`, `2`, `3`), univ.Js(`"a"`, `"b"`, `"ab"`), univ.Js(`"1"`, `"2"`, `"10"`), univ.Js(`"éb"`, `"éa"`, `"éc"`)} {
		for n := 0; n <= maxLen; n++ {
			if n == 0 {
				objArrays = append(objArrays, []interface{}{})
				continue
			}
			tuples(len(keys), n, func(ix []int) {
				a := make([]interface{}, n)
				for i, k := range ix {
					a[i] = map[string]interface{}{"k": keys[k], "t": float64(i)}
				}
				objArrays = append(objArrays, a)
			})
		}
	}
	var objects []interface{}
	ov := univ.Js(`1`, `2`, `null`)
	objects = append(objects, map[string]interface{}{})
	for _, x := range ov {
		objects = append(objects, map[string]interface{}{"a": x}, map[string]interface{}{"b": x})
		for _, y := range ov {
			objects = append(objects, map[string]interface{}{"a": x, "b": y})
		}
	}
	objects = append(objects, univ.Js(`{"a":1,"b":2,"c":3}`, `{"c":{"a":1}}`)...)

	groups := []c09Group{
		{[]string{"abs(a)", "ceil(a)", "floor(a)", "to_number(a)", "to_string(a)", "type(a)", "not_null(a)"}, [][]interface{}{nums}},
		{[]string{"avg(a)", "sum(a)", "max(a)", "min(a)", "sort(a)", "reverse(a)", "length(a)", "to_array(a)", "sort(a)[0]", "reverse(sort(a))"}, [][]interface{}{numArrays}},
		{[]string{"max(a)", "min(a)", "sort(a)", "reverse(a)", "length(a)", "join(', ', a)", "sort(a)[-1]", "join('', sort(a))"}, [][]interface{}{strArrays}},
		{[]string{"max(a)", "min(a)", "sort(a)"}, [][]interface{}{uniArrays}},
		{[]string{"join(a, b)"}, [][]interface{}{strs3, strArrays}},
		{[]string{"contains(a, b)", "starts_with(a, b)", "ends_with(a, b)"}, [][]interface{}{strs, strs}},
		{[]string{"contains(a, b)"}, [][]interface{}{strs[:4], anys}},
		{[]string{"contains(a, b)"}, [][]interface{}{hetero, anys}},
		{[]string{"contains(a, b)", "a[?@ == b]", "a[0] == b"}, [][]interface{}{objHay, objElems}},
		{[]string{"length(a)", "reverse(a)", "to_string(a)", "to_number(a)", "to_array(a)", "type(a)"}, [][]interface{}{strs}},
		{[]string{"to_array(a)", "to_string(a)", "to_number(a)", "type(a)", "not_null(a)", "not_null(a, `1`)", "to_string(to_string(a))", "to_array(to_array(a))", "type(to_string(a))"}, [][]interface{}{anys}},
		{[]string{"not_null(a, b)", "not_null(a, b, c)", "not_null(c, b, a)"}, [][]interface{}{anys[:8], anys[:8], anys[:8]}},
		{[]string{"reverse(a)", "length(a)", "to_array(a)", "map(&@, a)", "map(&type(@), a)", "map(&to_array(@), a)", "map(&[0], a)", "map(&a, a)", "map(&not_null(@, `0`), a)"}, [][]interface{}{hetero}},
		{[]string{"keys(a)", "values(a)", "length(a)", "merge(a)", "keys(a)[0]", "values(a)[-1]", "sort(keys(a))", "length(keys(a))", "*", "map(&@, values(a))"}, [][]interface{}{objects}},
		{[]string{"merge(a, b)", "merge(b, a)", "merge(a, b).a", "keys(merge(a, b))"}, [][]interface{}{objects, objects}},
		{[]string{"merge(a, b, c)"}, [][]interface{}{objects[:12], objects[:12], objects[:12]}},
		{[]string{"sort_by(a, &k)", "max_by(a, &k)", "min_by(a, &k)", "sort_by(a, &t)", "max_by(a, &t)", "min_by(a, &t)",
			"sort_by(a, &k)[*].t", "max_by(a, &k).t", "min_by(a, &k).t", "map(&k, a)", "map(&t, a)", "map(&nope, a)",
			"sort_by(a, &to_string(k))[*].t", "max_by(a, &length(to_string(k))).t", "sort_by(a, &[k,t][0])[*].t", "sort_by(sort_by(a, &t), &k)[*].t",
			"sort_by(a, &k) | [0].t", "reverse(sort_by(a, &k))[*].t",
			// by-functions nested inside the expression reference of another by-function
			"max_by(a, &max_by([k, t], &@)).t", "sort_by(a, &min_by([k, t], &@))[*].t", "map(&max_by([k, t], &@), a)", "min_by(a, &length(sort_by([k, t], &@))).t", "max_by(a, &sum(sort_by([t, k], &@))).t"}, [][]interface{}{objArrays}},
	}
	// larger arrays (a structured family, not exhaustive): lengths 13..64 with heavily tied keys,
	// ascending / descending / periodic patterns — sorting code switches algorithm above ~12 elements
	var bigObjArrays, bigNumArrays, bigStrArrays []interface{}
	for _, n := range []int{13, 16, 25, 40, 64} {
		for _, pat := range []func(i int) int{func(i int) int { return i % 2 }, func(i int) int { return i % 3 }, func(i int) int { return (i * 7) % 5 }, func(i int) int { return n - i }, func(i int) int { return 0 }, func(i int) int { return (i * i) % 7 }} {
			oa, ob := make([]interface{}, n), make([]interface{}, n)
			na, sa := make([]interface{}, n), make([]interface{}, n)
			for i := 0; i < n; i++ {
				oa[i] = map[string]interface{}{"k": float64(pat(i)), "t": float64(i)}
				ob[i] = map[string]interface{}{"k": string(rune('a' + pat(i)%26)), "t": float64(i)}
				na[i] = float64(pat(i))
				sa[i] = string(rune('a'+pat(i)%26)) + string(rune('a'+i%3))
			}
			bigObjArrays = append(bigObjArrays, oa, ob)
			bigNumArrays = append(bigNumArrays, na)
			bigStrArrays = append(bigStrArrays, sa)
		}
	}
	groups = append(groups,
		c09Group{[]string{"sort_by(a, &k)[*].t", "max_by(a, &k).t", "min_by(a, &k).t", "sort_by(a, &t)[*].t", "reverse(sort_by(a, &k))[*].t", "sort_by(sort_by(a, &t), &k)[*].t", "map(&t, a)", "length(sort_by(a, &k))"}, [][]interface{}{bigObjArrays}},
		c09Group{[]string{"sort(a)", "max(a)", "min(a)", "sum(a)", "avg(a)", "reverse(a)", "length(a)", "sort(a)[0]", "sort(a)[-1]"}, [][]interface{}{bigNumArrays}},
		c09Group{[]string{"sort(a)", "max(a)", "min(a)", "reverse(a)", "join('', a)", "length(join(',', a))"}, [][]interface{}{bigStrArrays}},
	)
	var total conformStats
	nexpr, ndocs := 0, 0
	fields := []string{"a", "b", "c"}
	for gi, g := range groups {
		var docs []interface{}
		sizes := 1
		for _, s := range g.sets {
			sizes *= len(s)
		}
		_ = sizes
		var rec func(i int, cur map[string]interface{})
		rec = func(i int, cur map[string]interface{}) {
			if i == len(g.sets) {
				d := map[string]interface{}{}
				for k, v := range cur {
					d[k] = v
				}
				docs = append(docs, d)
				return
			}
			for _, v := range g.sets[i] {
				cur[fields[i]] = v
				rec(i+1, cur)
			}
		}
		rec(0, map[string]interface{}{})
		var exprs []exprCase
		for _, c := range g.calls {
			ctxs := callContexts
			if len(docs) > 5000 {
				ctxs = callContexts[:2]
			}
			for _, ctx := range ctxs {
				exprs = append(exprs, exprFromText(strings.Replace(ctx, "%s", c, -1)))
			}
		}
		st := conform(r, exprs, docs, conformOpts{})
		total.add(st)
		nexpr += len(exprs)
		ndocs += len(docs)
		if gi%4 == 0 {
			sampleExprs(r, exprs[:1], docs[len(docs)/2:])
		}
	}
	// pairs of calls with literal arguments inside ONE expression (a per-expression memo keyed on a
	// lossy rendering of the arguments would conflate them): 1 vs "1", ["a b"] vs ["a","b"], ...
	confusable := []string{"`1`", "`\"1\"`", "`true`", "`\"true\"`", "`null`", "`\"<nil>\"`", "`1.5`", "`\"1.5\"`", "`[\"a b\"]`", "`[\"a\",\"b\"]`", "`[1,2]`", "`[\"1\",\"2\"]`", "`\"[1 2]\"`",
		"`{\"a\":1}`", "`\"map[a:1]\"`", "`[]`", "`\"[]\"`", "`{}`", "`\"\"`", "`[[1],[2]]`", "`[[1,2]]`", "'a'", "`[\"a\"]`"}
	var pairExprs []exprCase
	for _, fn := range []string{"type", "to_string", "to_array", "length", "not_null", "to_number", "reverse", "sort", "max", "sum", "keys", "abs", "join(',', %s)", "contains(%s, `1`)", "contains(%s, 'a')"} {
		call := func(arg string) string {
			if strings.Contains(fn, "%s") {
				return strings.Replace(fn, "%s", arg, -1)
			}
			return fn + "(" + arg + ")"
		}
		for _, x := range confusable {
			for _, y := range confusable {
				if x != y {
					pairExprs = append(pairExprs, exprFromText("["+call(x)+", "+call(y)+"]"))
				}
			}
		}
	}
	// two DIFFERENT functions over the same field in one expression and in both orders (a conversion of the argument
	// that one of them caches, sorts or consumes in place must not be what the other one sees)
	unaryArr := []string{"sort(a)", "join('-', a)", "max(a)", "min(a)", "reverse(a)", "length(a)", "to_array(a)", "to_string(a)", "a[0]", "sort_by(a, &@)", "max_by(a, &@)", "map(&@, a)", "not_null(a)", "contains(a, a[0])", "a[::-1]", "sum(b)", "avg(b)", "sort(b)", "max(b)", "reverse(b)", "b[0]", "sort_by(b, &@)", "join(',', sort(a))"}
	var fpairs []exprCase
	for _, f := range unaryArr {
		for _, g2 := range unaryArr {
			if f != g2 {
				fpairs = append(fpairs, exprFromText("["+f+", "+g2+"]"))
			}
		}
	}
	stf := conform(r, fpairs, univ.Js(`{"a":["c","a","b"],"b":[3,1,2]}`, `{"a":["b","a"],"b":[2,1]}`, `{"a":["a","b","c"],"b":[1,2,3]}`, `{"a":["b"],"b":[0]}`, `{"a":[],"b":[]}`, `{"a":["b","a","b","a"],"b":[2,1,2,1]}`), conformOpts{})
	total.add(stf)
	nexpr += len(fpairs)
	r.Note("function_pairs_over_one_field", len(fpairs))
	// two calls of the same VARIADIC function with different argument counts in one expression, in both
	// orders and nested (a signature padded for the wider call must not stick to the narrower one)
	vargs := []string{"a", "b", "c", "a", "b"}
	for _, fn := range []string{"not_null", "merge"} {
		for k := 1; k <= 5; k++ {
			for j := 1; j <= 5; j++ {
				if k == j {
					continue
				}
				ck, cj := fn+"("+strings.Join(vargs[:k], ", ")+")", fn+"("+strings.Join(vargs[:j], ", ")+")"
				pairExprs = append(pairExprs, exprFromText("["+ck+", "+cj+"]"), exprFromText("{x: "+ck+", y: "+cj+"}"), exprFromText(ck+" && "+cj), exprFromText(fn+"("+ck+", "+cj+")"), exprFromText(ck+" | "+cj))
			}
		}
	}
	stp := conform(r, pairExprs, univ.Js(`{"a":1}`, `{"a":{"x":1},"b":{"y":2},"c":{"x":3}}`, `{"a":null,"b":{},"c":{"z":null}}`), conformOpts{})
	total.add(stp)
	nexpr += len(pairExprs)
	// to_number over short strings: exact where pinned, weak oracle in the gap
	syms := []string{"0", "1", "-", "+", ".", "e", "x", "_", " ", "a", "inf", "nan"}
	var strs2 []string
	for n := 0; n <= 3; n++ {
		if n == 0 {
			strs2 = append(strs2, "")
			continue
		}
		tuples(len(syms), n, func(ix []int) {
			s := ""
			for _, k := range ix {
				s += syms[k]
			}
			strs2 = append(strs2, s)
		})
	}
	// JSON texts that are not numbers (a to_number built on a JSON decoder must not accept them)
	strs2 = append(strs2, "null", "true", "false", "nul", "[]", "{}", "\"\"", "null ", " null", "NULL", "None", "nil")
	strs2 = append(strs2, "Infinity", "-Infinity", "+Inf", "NaN", "1e400", "-1e400", "0x1p-2", "1_000", "१२", "1e5", "-0", "0.0", "1E+2", "1.5e-3", "9007199254740993")
	jp, cerr, pn := impl.Compile("to_number(@)")
	var tn, tnPinned int64
	if pn != nil || cerr != nil {
		r.Report(harness.Violation{Kind: "rejected-grammatical", Signature: "compile-error:to_number(@)", Input: map[string]interface{}{"expression": "to_number(@)"}, Expected: "compiles", Observed: "error or panic"})
	} else {
		for _, s := range strs2 {
			res, serr, pn := impl.Search(jp, s)
			tn++
			bad, exp := "", ""
			cls := model.ClassifyNumberString(s)
			switch {
			case pn != nil:
				bad, exp = pn.Error(), "a number or null"
			case serr != nil:
				bad, exp = "error: "+serr.Error(), "a number or null"
			default:
				f, isNum := res.(float64)
				switch cls {
				case model.NumNone:
					tnPinned++
					if res != nil {
						bad, exp = model.Show(res), "null (the string contains no digit)"
					}
				case model.NumJSON:
					tnPinned++
					want := model.Outcomes(exprFromText("to_number(@)").ast, s, nil)[0]
					if want.Err == nil && !model.Match(res, want.Val) {
						bad, exp = model.Show(res), model.Canon(want.Val)
					}
				default:
					if res != nil && (!isNum || math.IsNaN(f) || math.IsInf(f, 0)) {
						bad, exp = model.Show(res), "null or a finite number"
					}
				}
				if isNum && (math.IsNaN(f) || math.IsInf(f, 0)) && bad == "" {
					bad, exp = model.Show(res), "null or a finite number"
				}
			}
			if bad != "" {
				r.Report(harness.Violation{Kind: "wrong-value", Signature: "to_number-string:" + s,
					Input: map[string]interface{}{"expression": "to_number(@)", "document": s}, Expected: exp, Observed: bad})
			}
		}
	}
	finishConform(r, total, nexpr, ndocs)
	r.Evaluations += tn
	r.Traces += tn
	r.Nontrivial += tnPinned
	r.Note("to_number_strings", tn)
	r.Sample(map[string]interface{}{"expression": "max_by(a, &k).t", "document": `{"a":[{"k":2,"t":0},{"k":2,"t":1}]}`, "model_outcome": "0 (first extremal element)"})
	return harness.Coverage{Exhaustive: true, Bounds: map[string]interface{}{"array_length": maxLen, "groups": len(groups)}, Outcomes: distinctOutcomes(total)}
}
