package main

import (
	"encoding/json"
	"fmt"
	"os"

	"verif/harness"
	"verif/impl"
	"verif/model"
)

// doReplay re-executes the concrete input of a violation artefact against the
// library built from the current tree and prints what it does now.
func doReplay(path string) int {
	data, err := os.ReadFile(path)
	if err != nil {
		harness.Fatal("%v", err)
	}
	var v harness.Violation
	if err := json.Unmarshal(data, &v); err != nil {
		harness.Fatal("%v", err)
	}
	expr, _ := v.Input["expression"].(string)
	fmt.Printf("property=%s kind=%s signature=%s\nexpression=%q\nexpected: %s\nrecorded: %s\n", v.Property, v.Kind, v.Signature, expr, v.Expected, v.Observed)
	jp, cerr, pn := impl.Compile(expr)
	if pn != nil {
		fmt.Println("now: Compile panics:", pn.Error())
		return 1
	}
	if cerr != nil {
		fmt.Println("now: Compile error:", cerr)
		return 0
	}
	fmt.Println("now: Compile ok, AST", impl.Render(jp))
	if d, ok := v.Input["document"]; ok {
		res, serr, pn := impl.Search(jp, model.Copy(d))
		if pn != nil {
			fmt.Println("now: Search panics:", pn.Error())
			return 1
		}
		if serr != nil {
			fmt.Println("now: Search error:", serr)
			return 0
		}
		fmt.Println("now: Search =", model.Show(res))
	}
	return 0
}
