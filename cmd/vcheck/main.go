// Command vcheck runs the model-checking checks that need only the plain
// (-tags verif) build of the library.
package main

import (
	"flag"
	"fmt"
	"os"
	"sort"

	"verif/harness"
	"verif/model"
)

type checkFn func(r *harness.Run) harness.Coverage

var registry = map[string]checkFn{}

func register(id string, fn checkFn) { registry[id] = fn }

func ground(r *harness.Run) {
	n, probs := model.Ground(harness.Root + "/corpus")
	if len(probs) > 0 || n < 800 {
		for _, p := range probs {
			fmt.Fprintln(os.Stderr, "model grounding:", p)
		}
		harness.Fatal("reference model disagrees with the compliance corpus (%d cases, %d problems); refusing to judge", n, len(probs))
	}
	r.Note("model_grounding", fmt.Sprintf("%d official compliance cases replayed through the model (lexer, G, P, E): all agree", n))
}

func main() {
	prop := flag.String("prop", "", "property id")
	tier := flag.String("tier", "", "quick|thorough")
	replay := flag.String("replay", "", "replay a violation artefact")
	flag.Parse()
	if *replay != "" {
		os.Exit(doReplay(*replay))
	}
	fn, ok := registry[*prop]
	if !ok {
		ids := []string{}
		for k := range registry {
			ids = append(ids, k)
		}
		sort.Strings(ids)
		harness.Fatal("unknown property %q (have %v)", *prop, ids)
	}
	r := harness.Start(*prop, *tier)
	ground(r)
	cov := fn(r)
	os.Exit(r.Finish(cov))
}

func osExit(code int) { os.Exit(code) }
