// Command vcheck runs the model-checking checks that need only the plain
// (-tags verif) build of the library.
package main

import (
	"flag"
	"fmt"
	"os"
	"sort"
	"strings"

	"verif/harness"
	"verif/model"
)

type checkFn func(r *harness.Run) harness.Coverage

var registry = map[string]checkFn{}

func register(id string, fn checkFn) { registry[id] = fn }

func ground(r *harness.Run) {
	n, probs := model.Ground(harness.Root + "/corpus")
	if len(probs) > 0 || n < 800 {
		for _, p := range probs {
			fmt.Fprintln(os.Stderr, "model grounding:", p)
		}
		harness.Fatal("reference model disagrees with the compliance corpus (%d cases, %d problems); refusing to judge", n, len(probs))
	}
	r.Note("model_grounding", fmt.Sprintf("%d official compliance cases replayed through the model (lexer, G, P, E): all agree", n))
}

func main() {
	prop := flag.String("prop", "", "property id")
	tier := flag.String("tier", "", "quick|thorough")
	replay := flag.String("replay", "", "replay a violation artefact")
	crashLog := flag.String("crashlog", "", "report that the driver process died (output in this file)")
	flag.Parse()
	if *crashLog != "" {
		os.Exit(reportCrash(*prop, *tier, *crashLog))
	}
	if *replay != "" {
		os.Exit(doReplay(*replay))
	}
	fn, ok := registry[*prop]
	if !ok {
		ids := []string{}
		for k := range registry {
			ids = append(ids, k)
		}
		sort.Strings(ids)
		harness.Fatal("unknown property %q (have %v)", *prop, ids)
	}
	r := harness.Start(*prop, *tier)
	ground(r)
	cov := fn(r)
	os.Exit(r.Finish(cov))
}

func osExit(code int) { os.Exit(code) }

// reportCrash turns a driver process that died (Go fatal error: stack
// exhaustion, concurrent map write, out of memory — none of which recover()
// can catch) into a violation with an artefact, instead of a silent tooling error.
func reportCrash(prop, tier, logPath string) int {
	r := harness.Start(prop, tier)
	data, _ := os.ReadFile(logPath)
	text := string(data)
	cause := "driver process died without a verdict"
	for _, l := range strings.Split(text, "\n") {
		if strings.HasPrefix(l, "fatal error:") || strings.HasPrefix(l, "panic:") || strings.HasPrefix(l, "runtime:") {
			cause = l
			break
		}
	}
	if len(text) > 3000 {
		text = text[:1500] + "\n…\n" + text[len(text)-1500:]
	}
	r.Rule = "the check process crashed before completing its universe"
	r.Sample(map[string]interface{}{"crash": cause})
	r.Cap("the driver process crashed: " + cause)
	r.Report(harness.Violation{Kind: "crash", Signature: "process-crash:" + cause,
		Input:    map[string]interface{}{"note": "a fatal runtime error killed the check while library code was running; re-run with VERIF_WORKERS=1 to localise"},
		Expected: "Compile/Search return on every enumerated case", Observed: text})
	return r.Finish(harness.Coverage{Exhaustive: false})
}
