package main

import (
	"encoding/json"
	"fmt"
	"math"
	"strings"
	"sync/atomic"

	"verif/harness"
	"verif/impl"
	"verif/model"
	"verif/univ"
)

func init() { register("C16", checkC16) }

// jsonDefect returns "" if v is JSON data (nil, bool, finite float64, string,
// non-nil []interface{}, non-nil map[string]interface{}, recursively).
func jsonDefect(v interface{}, path string) string { return jsonDefectD(v, path, 0) }

func jsonDefectD(v interface{}, path string, depth int) string {
	if depth > 500 {
		return path + " is nested deeper than 500 levels (cyclic value?)"
	}
	switch x := v.(type) {
	case nil, bool, string:
		return ""
	case float64:
		if math.IsNaN(x) || math.IsInf(x, 0) {
			return fmt.Sprintf("%s is a non-finite number (%v)", path, x)
		}
		return ""
	case []interface{}:
		if x == nil {
			return path + " is a nil slice (serialises as null, not [])"
		}
		for i, e := range x {
			if d := jsonDefectD(e, fmt.Sprintf("%s[%d]", path, i), depth+1); d != "" {
				return d
			}
		}
		return ""
	case map[string]interface{}:
		if x == nil {
			return path + " is a nil map (serialises as null, not {})"
		}
		for k, e := range x {
			if d := jsonDefectD(e, path+"."+k, depth+1); d != "" {
				return d
			}
		}
		return ""
	}
	return fmt.Sprintf("%s is a Go value of type %T, not JSON data", path, v)
}

func checkC16(r *harness.Run) harness.Coverage {
	r.Rule = "the core, projection and logic universes of C01/C02/C07 plus every built-in with every argument shape (fields, literals, expression references in declared positions) up to the weight bound, x documents incl. every empty container; every successful result is walked (nil, bool, finite float64, string, non-nil []interface{}, non-nil map[string]interface{}, recursively) and round-tripped through encoding/json. Expression references in undeclared positions (gaps G1/G11) are outside the domain. Non-trivial = reference outcome non-null; distinct by (expression, document)"
	r.Assumptions = []string{"documents are JSON data with numbers of moderate magnitude", "domain restriction decided by the reference evaluator: pairs whose only outcome is a gap are skipped"}
	var checked, roundTrips int64
	on := func(w int, e *exprCase, doc interface{}, res interface{}, err error) {
		atomic.AddInt64(&checked, 1)
		d := jsonDefect(res, "result")
		if d == "" && res != nil {
			if _, scalar := res.(bool); !scalar {
				atomic.AddInt64(&roundTrips, 1)
				js, merr := json.Marshal(res)
				if merr != nil {
					d = "json.Marshal fails: " + merr.Error()
				} else {
					var back interface{}
					if uerr := json.Unmarshal(js, &back); uerr != nil || !model.DeepEqual(back, res) {
						d = "json round trip gives a different value: " + string(js)
					}
				}
			}
		}
		if d != "" {
			r.Report(harness.Violation{Kind: "contract", Signature: "not-json:" + e.text,
				Input:    map[string]interface{}{"expression": e.text, "document": doc},
				Expected: "JSON data", Observed: d + " — result " + model.Show(res),
				GoTest: goTest(e.text, doc, "JSON data")})
		}
	}
	opts := conformOpts{skipValue: true, onResult: on}
	var total conformStats
	nexpr, ndocs := 0, 0
	w := 0
	if r.Thorough() {
		w = 1
	}
	docs := univ.Values(1, 2, univ.Js(univ.A6...), []string{"a", "b"})
	docs = append(docs, univ.Js(`[[],[[]],{}]`, `{"a":[1,2,3],"b":["a","b"]}`, `{"a":[{"a":1,"b":"x"},{"a":2,"b":"y"}],"b":{"a":{},"b":[]}}`, `[0.5,-3,1e10,1e-10]`, `{"a":"é😀","b":"\u0000\""}`,
		`{"a":"Infinity","b":"nan"}`, `["inf","-inf","NaN","+Inf","1e999","-1e999","1","x"]`, `{"a":["Infinity",1],"b":{"a":"-Infinity"}}`, `{"a":{},"b":[]}`, `{"a":[],"b":{}}`)...)
	// whole numbers whose totals lie beyond 2^53 (a sum done in integers must still come back as a JSON number)
	docs = append(docs, univ.Js(`{"a":[4503599627370496,4503599627370496,1],"b":[9007199254740992,1]}`, `[1000000000000000,1000000000000000,9000000000000000]`, `{"a":[1152921504606846976,1152921504606846976],"b":[1e18,2e18,4e18]}`,
		`{"a":[-4611686018427387904,-4611686018427387904],"b":[9223372036854775807,1]}`, `[9007199254740993,9007199254740993]`)...)
	// arrays above the size thresholds of "large input" fast paths, and nothing that survives a filter
	bigObjs := make([]interface{}, 70)
	bigNums := make([]interface{}, 70)
	for i := range bigObjs {
		bigObjs[i] = map[string]interface{}{"a": float64(i % 5)}
		bigNums[i] = float64(i)
	}
	docs = append(docs, map[string]interface{}{"a": bigObjs, "b": bigNums}, bigNums)
	// literals at the edge of the number range in operand positions
	var edgeCases int64
	for _, lit := range []string{"`1e400`", "`-1e400`", "`[1, 2, 1e309]`", "`{\"limit\": 2e308}`", "`1e308`", "`-1e308`", "`9007199254740993`", "`1e-400`", "`[1e999]`", "`123456789012345678901234567890`"} {
		for _, ctx := range []string{"%s", "a || %s", "[%s, a]", "{x: %s}", "to_number(%s)", "not_null(a.b, %s)", "%s | @", "%s[0]", "to_string(%s)", "[%s][0]"} {
			text := strings.Replace(ctx, "%s", lit, -1)
			// no reference value is needed: whatever a SUCCESSFUL search returns must be JSON data
			jp, cerr, pn := impl.Compile(text)
			if pn != nil || cerr != nil {
				continue
			}
			e := exprCase{text: text}
			for _, d := range docs[:12] {
				res, serr, spn := impl.Search(jp, model.Copy(d))
				edgeCases++
				if spn == nil && serr == nil {
					on(0, &e, d, res, nil)
				}
			}
		}
	}
	// strings assembled by the library (raw strings with an escaped quote, joins, reversals, hash keys, to_string)
	// from non-ASCII parts: every string in a result must be valid UTF-8 and survive a JSON round trip
	strDocs := univ.Js(`{"a":"é😀","b":["x","日","z"],"c":"–","d":{"é":"日本","😀":["–"]}}`, `{"a":"–","b":["é","–"],"c":"é","d":{},"e":["1e999","-1e999","1E400","17e308","0.1e-400","1"]}`)
	for _, text := range []string{"'l\\'été'", "'\\'é'", "'é\\''", "'日\\'😀\\'–'", "['é\\'', a]", "{\"é\\\"\": 'é\\''}", "`\"é\\n😀\"`", "join('–', b)", "join('é', b)", "join('😀', b)", "join(c, b)", "join(a, b)", "join('', b)",
		"reverse(a)", "reverse(c)", "reverse('é\\'–')", "to_string(a)", "to_string(b)", "to_string(@)", "to_string(d)", "keys(d)", "values(d)", "sort(b)", "max(b)", "min(b)", "sort(keys(d))", "join('–', keys(d))", "join(c, sort(keys(d)))",
		"{\"é\": a, \"–\": c}", "d.\"é\"", "d.\"😀\"[0]", "b[*].join('–', [@, @])", "map(&join('é', [@, 'é\\'']), b)", "[a, c] | join('–', @)", "not_null(c, a)", "to_array(c)", "merge(d, {\"–\": c})", "b[?@ == '日']", "b[?@ != 'é\\'']",
		"sort_by(b, &@)", "max_by(b, &@)", "starts_with(a, 'é') && a", "contains(a, '😀') && reverse(a)", "type(c) == 'string' && c",
		// escapes U+0080..U+00FF in quoted identifiers used as hash keys / field names
		"{\"caf\\u00e9\": a}", "{\"\\u00ff\\u0080\": c, \"\\u007f\": a}", "d.\"\\u00e9\"", "{\"\\u00e9\": d.\"\\u00e9\"}", "keys({\"\\u00e9\\u00e8\": a})", "{\"\\ud83d\\ude00\": a, \"\\u0100\": c}",
		// numbers made from strings whose exponent overflows or underflows
		"to_number('1e999')", "to_number('-2.5E+999')", "[to_number('1e400'), to_number('1')]", "e[*].to_number(@)", "map(&to_number(@), e)", "sum(e[*].to_number(@))", "abs(to_number('-1e999'))", "to_number(e[0])", "{n: to_number(e[1])}",
		"to_number('17e308')", "to_number('0.1e-400')", "max(e[*].to_number(@))", "e[?to_number(@) > `1`]", "avg(e[*].to_number(@))", "to_number('1e999') || 'x'", "not_null(to_number('1e999'), 'x')"} {
		jp, cerr, pn := impl.Compile(text)
		if pn != nil || cerr != nil {
			continue // acceptance is C04's and C14's business
		}
		e := exprCase{text: text}
		for _, d := range strDocs {
			res, serr, spn := impl.Search(jp, model.Copy(d))
			edgeCases++
			if spn == nil && serr == nil {
				on(0, &e, d, res, nil)
			}
		}
	}
	r.Note("edge_literal_cases", edgeCases)
	for _, part := range []struct {
		f    *univ.Fragment
		maxW int
	}{{univ.CoreFragment(), 5 + w}, {univ.ProjFragment(), 4 + w}, {univ.LogicFragment(), 5}, {univ.FuncFragment(model.FunctionNames()), 5 + w}} {
		st, n, samp := conformGen(r, univ.NewGen(part.f), part.maxW, nil, docs, opts)
		total.add(st)
		nexpr += n
		ndocs = len(docs)
		if len(samp) > 1 {
			sampleExprs(r, samp[1:2], docs)
		}
	}
	finishConform(r, total, nexpr, ndocs)
	r.Note("results_walked", checked)
	r.Note("json_round_trips", roundTrips)
	return harness.Coverage{Exhaustive: true, Bounds: map[string]interface{}{"weight": 4 + w, "documents": len(docs)}, Outcomes: 2}
}
