package main

import (
	"strings"
	"verif/harness"
	"verif/model"
	"verif/univ"
)

func init() { register("C02", checkC02) }

var projDocs = univ.Js(
	`[1,[2],[[3]],null,{}]`, `[[1,2],[3,[4]],5]`, `[[[1]],[[2,[3]]]]`, `[null,null]`, `[null,1,null,2]`, `[[],[[]],[null]]`,
	`[{"a":1,"b":2},{"a":null,"b":3},{"b":4},{"a":[1,2]},{"a":{"a":5}}]`, `[{"a":0},{"a":1},{"a":2},{"a":"1"},{"a":false},{"a":""},{"a":[]},{"a":{}}]`,
	`{"a":[1,2,3],"b":[4,5]}`, `{"a":{"a":1,"b":2},"b":{"a":3}}`, `{"a":[{"a":1},{"a":2}],"b":[{"a":3}]}`, `{"a":null,"b":1}`, `{"a":[[1,2],[3]],"b":[[4]]}`,
	`{"a":{"a":[1,2]},"b":{"a":[3]}}`, `[[{"a":1},{"a":2}],[{"a":3}]]`, `[{"a":[{"b":1},{"b":2}]},{"a":[{"b":3}]}]`, `{"a":[0,1,2,3,4]}`, `[0,1,2,3,4]`,
	`{"a":"abc"}`, `"abc"`, `{"a":{"b":{"a":1}}}`, `[[0,1],[2,3],[4,5]]`, `{"b":[{"a":[1,[2]]},{"a":[[3],4]}]}`, `[true,false,0,1,"",[],{},null,"a",[0],{"a":null}]`,
)

func checkC02(r *harness.Run) harness.Coverage {
	r.Rule = "all sentences of the projection fragment ([*], *, E.*, [], [?c], slices; right-hand sides incl. type(@), not_null(@,`1`), to_array(@), indices, multi-selects; terminators |, ), [], ||, &&, comparators) up to the structural weight bound that contain at least one projection, each against every document of the universe; outcome sets over every admissible object-member order; non-trivial = reference outcome non-null or error; distinct by (expression, document)"
	r.Assumptions = []string{"reference semantics: model/eval.go (grounded on the compliance cases); object-member order is enumerated, never sorted away", "bounded expressions and documents as reported in bounds_completed"}
	maxW := 5
	smallDocs := univ.Values(2, 2, univ.Js(`null`, `1`, `[]`, `{}`), []string{"a"})
	smallDocs = append(smallDocs, univ.Values(1, 3, univ.Js(`null`, `false`, `0`, `2`, `"b"`, `[]`), []string{"a", "b"})...)
	smallDocs = append(smallDocs, projDocs...)
	docs := smallDocs
	g := univ.NewGen(univ.ProjFragment())
	keep := func(_ []model.Tok, ast *model.Node) bool { return univ.HasProjection(ast) }
	var st conformStats
	var exprs []exprCase
	nGen := 0
	if r.Thorough() {
		// weight <= 5 against the large document universe, weight 6 against the heterogeneous documents
		docs = append(univ.Values(2, 2, univ.Js(`null`, `1`, `"a"`, `[]`, `{}`), []string{"a", "b"}), smallDocs...)
		st, nGen, exprs = conformGen(r, g, maxW, keep, docs, conformOpts{})
		st6, n6, _ := conformGen(r, g, 6, keep, append(append([]interface{}{}, projDocs...), collisionDocs...), conformOpts{minW: 6})
		st.add(st6)
		nGen += n6
		r.Note("weight_6_expressions", n6)
		maxW = 6
	} else {
		st, nGen, exprs = conformGen(r, g, maxW, keep, docs, conformOpts{})
	}
	// long postfix chains (projection scope across several steps) x the heterogeneous documents
	chainW := 7
	if r.Thorough() {
		chainW = 8
	}
	chains := buildExprs(univ.NewGen(univ.ChainFragment()), chainW, func(_ []model.Tok, ast *model.Node) bool { return univ.HasProjection(ast) })
	chainDocs := append(append([]interface{}{}, projDocs...), collisionDocs...)
	chainDocs = append(chainDocs, univ.Js(`{"a":{"x":{"a":{"a":[1,2]}},"y":{"a":{"a":[3]}}}}`, `{"a":{"x":{"a":[{"a":1},{"a":0}]},"y":{"a":[{"a":2}]}}}`, `{"a":[{"a":[{"a":[1]},{"a":[]}]},{"a":[{"a":[2,3]}]}]}`, `{"a":{"a":{"a":{"a":{"a":1}}}}}`, `[[[1,2],[3]],[[4]]]`)...)
	st.add(conform(r, chains, chainDocs, conformOpts{}))
	// a projection piped into a second projection whose right-hand side maps null to non-null: the pipe
	// must finish the first projection (drop its nulls) before the second starts
	var left []exprCase
	gl := univ.NewGen(&univ.Fragment{Idents: univ.Tks("a", "b"), Leaves: univ.Tks("@"), Nums: univ.Tks("0"), Slices: [][]model.Tok{univ.Tks("1", ":")},
		Star: true, WildIdx: true, Flatten: true, Filter: true, Dot: true, FilterConds: [][]model.Tok{univ.Tks("a"), univ.Tks("@")}, Weight: univ.StructuralWeight})
	left = buildExprs(gl, 5, func(_ []model.Tok, ast *model.Node) bool { return univ.HasProjection(ast) })
	var piped []exprCase
	for _, l := range left {
		for _, rhs := range []string{"[*].type(@)", "[].type(@)", "[*].not_null(@, `1`)", "[?@ == `null`]", "[*].to_array(@)", "*.type(@)", "[*].a", "[*].[a]", "[::-1].type(@)", "[?!a].type(@)", "[0]", "[*]", "[]", "length(@)", "[*].b | [*].type(@)"} {
			piped = append(piped, exprFromText(l.text+" | "+rhs))
		}
	}
	st.add(conform(r, piped, chainDocs, conformOpts{}))
	// pumped families: a projection construct repeated k times, nested, in a row or as siblings, in ONE expression
	kmax := 1100
	if r.Thorough() {
		kmax = 5000
	}
	ks := pumpKs(kmax)
	pumped := append(pumpExprs(pumpProj, ks), seqExprs(pumpProjSeq, ks)...)
	pumpDocs := univ.Js(`{"a":[[1,[2]],[3],null,{"b":4,"c":5}],"b":{"x":{"y":1}}}`, `{"a":[{"b":1,"c":{"c":2}},{"b":null},{"b":[0]}]}`, `{"a":{"x":[1],"y":{"z":2}}}`, `[[1,2],[3,[4]]]`, `{"a":[]}`, `null`)
	st.add(conform(r, pumped, pumpDocs, conformOpts{}))
	r.Note("pumped_expressions", len(pumped))
	r.Note("pumped_sizes", ks)
	// slice projections whose bounds are written out although they equal a default of the OTHER direction (an explicit
	// start 0 with a negative step is element 0 only, not "from the end"), and whole-range slices, each with a right-hand side
	var explicitSlices []exprCase
	for _, sl := range []string{"[0::-1]", "[0:-10:-1]", "[0::-2]", "[0:]", "[:0]", "[0:0:1]", "[::1]", "[0::1]", "[-1::1]", "[-1::-1]", "[:0:-1]", "[0:0:-1]", "[1::-1]", "[:-1:1]", "[0:99]", "[-99:]", "[99::-1]", "[:-99:-1]"} {
		for _, form := range []string{"a%s", "a%s.a", "%s", "%s.a", "a%s | [0]", "a%s[0]", "a[*]%s", "[a%s, a[0]]", "a%s.b | length(@)", "length(a%s)", "a%s[]"} {
			explicitSlices = append(explicitSlices, exprFromText(strings.Replace(form, "%s", sl, -1)))
		}
	}
	st.add(conform(r, explicitSlices, chainDocs, conformOpts{}))
	r.Note("explicit_bound_slice_projections", len(explicitSlices))
	r.Note("piped_projection_pairs", len(piped))
	r.Note("postfix_chains", len(chains))
	r.Note("postfix_chain_weight", chainW)
	finishConform(r, st, nGen+len(chains)+len(piped)+len(pumped), len(docs))
	sampleExprs(r, exprs, docs)
	return harness.Coverage{Exhaustive: true, Bounds: map[string]interface{}{"expression_weight": maxW, "documents": len(docs)}, Outcomes: distinctOutcomes(st)}
}
