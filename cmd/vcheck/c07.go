package main

import (
	"fmt"

	"verif/harness"
	"verif/model"
	"verif/univ"
)

func init() { register("C07", checkC07) }

var c07Atoms = []string{`null`, `true`, `false`, `0`, `1`, `-1`, `1.5`, `""`, `"a"`, `"1"`, `[]`, `{}`}

func checkC07(r *harness.Run) harness.Coverage {
	r.Rule = "operands from W = V(2,1,A,{a}) with A = {null,true,false,0,1,-1,1.5,\"\",\"a\",\"1\",[],{}} plus 22 values differing only in key set, member order, element order or nesting (106 values), as literals and as document fields: all pairs x all eight binary operators, !x, !!x; all nestings of the fragment {||,&&,!,six comparators,parentheses} over fields a,b,c up to the structural weight bound against all operand triples of a 12-value subset; the same conditions inside filters over arrays of W-values; short-circuit probes whose unevaluated side is an erroring call; 25 computed operands (function results, projections, slices, multi-selects that are empty or not) against each other and against literals. Non-trivial = reference outcome non-null or error; distinct by (expression, document)"
	r.Assumptions = []string{"reference truth table, deep equality and numbers-only ordering: model/eval.go", "operand universe bounded to nesting depth 2, width 1"}
	W := univ.Values(2, 1, univ.Js(c07Atoms...), []string{"a"})
	// values that differ only in key set, member order, element order or nesting
	W = append(W, univ.Js(`{"b":null}`, `{"b":1}`, `{"a":1,"b":2}`, `{"b":2,"a":1}`, `{"a":2,"b":1}`, `{"a":1,"b":null}`, `{"a":1,"c":null}`, `[1,2]`, `[2,1]`, `[1,[2]]`, `[[1],2]`, `[null]`, `[null,null]`,
		`{"a":{"b":null}}`, `{"a":{"c":null}}`, `[{"a":null}]`, `[{"b":null}]`, `"A"`, `"é"`, `2`, `1e0`, `-0.0`,
		// numbers that differ by one part in 10^10 .. 10^16 (equality is exact, no tolerance)
		`1.0000000001`, `1000000000000001`, `1000000000000002`, `0.3`, `0.30000000000000004`)...)
	sub := univ.Js(`null`, `true`, `false`, `0`, `1`, `2`, `""`, `"a"`, `[]`, `[0]`, `{}`, `{"a":null}`)
	ops := []string{"||", "&&", "==", "!=", "<", "<=", ">", ">="}
	var total conformStats
	nexpr, ndocs := 0, 0
	run := func(exprs []exprCase, docs []interface{}) {
		st := conform(r, exprs, docs, conformOpts{})
		total.add(st)
		nexpr += len(exprs)
		ndocs += len(docs)
		sampleExprs(r, exprs[:1], docs[len(docs)/2:])
	}
	// (1) operands as document fields: a op b, !a, !!a over all pairs
	var pairDocs []interface{}
	for _, x := range W {
		for _, y := range W {
			pairDocs = append(pairDocs, map[string]interface{}{"a": x, "b": y})
		}
	}
	var fieldExprs []exprCase
	for _, op := range ops {
		fieldExprs = append(fieldExprs, exprFromText("a "+op+" b"))
	}
	fieldExprs = append(fieldExprs, exprFromText("!a"), exprFromText("!!a"), exprFromText("!(a)"), exprFromText("a || b || `7`"), exprFromText("a && b && `7`"))
	// short-circuit probes: the right operand is an erroring call
	for _, bad := range []string{"nosuch(@)", "abs(`\"x\"`)", "length(@, @)"} {
		fieldExprs = append(fieldExprs, exprFromText("a || "+bad), exprFromText("a && "+bad), exprFromText(bad+" || a"), exprFromText("!a || "+bad), exprFromText("a == b || "+bad), exprFromText("a < b && "+bad))
	}
	// repeated comparisons inside one expression (an interpreter-level memo of compared pairs must not leak)
	fieldExprs = append(fieldExprs, exprFromText("[a == b, a == b]"), exprFromText("[a != b, a == b, a != b, b == a]"), exprFromText("[a == a, a == b, b == b]"), exprFromText("(a == b) == (a == b)"))
	run(fieldExprs, pairDocs)
	// the same operators with a literal operand, on roots of every JSON type (incl. a null current node)
	var rootExprs []exprCase
	for _, lit := range []string{"'d'", "`null`", "`1`", "`[]`", "`false`", "`{\"a\":1}`"} {
		for _, op := range ops {
			rootExprs = append(rootExprs, exprFromText("a "+op+" "+lit), exprFromText(lit+" "+op+" a"), exprFromText("@ "+op+" "+lit))
		}
		rootExprs = append(rootExprs, exprFromText("a || b || "+lit), exprFromText("!a && "+lit), exprFromText("map(&(a || "+lit+"), @)"), exprFromText("[0] | (a || "+lit+")"))
	}
	rootExprs = append(rootExprs, exprFromText("a || b"), exprFromText("a && b"), exprFromText("!a"), exprFromText("a == b"), exprFromText("!@"), exprFromText("@ || @"))
	rootDocs := univ.Js(`null`, `1`, `0`, `"s"`, `""`, `true`, `false`, `[]`, `[null]`, `[null, {"a":1}, {"a":null}, 1]`, `[{"a":1}]`, `{}`, `{"a":null}`, `{"a":1,"b":2}`, `{"b":0}`)
	run(rootExprs, rootDocs)
	// (2) operands as literals
	var litExprs []exprCase
	for _, x := range W {
		lx := model.LiteralText(x)
		litExprs = append(litExprs, exprFromText("!"+lx), exprFromText("!!"+lx))
		for _, y := range W {
			ly := model.LiteralText(y)
			for _, op := range ops {
				litExprs = append(litExprs, exprFromText(lx+" "+op+" "+ly))
			}
		}
	}
	// a raw string and a JSON literal with the same source text are different values
	for _, txt := range []string{"1", "true", "false", "null", "0", "[]", "{}", "1.5"} {
		for _, op := range ops {
			litExprs = append(litExprs, exprFromText("'"+txt+"' "+op+" `"+txt+"`"), exprFromText("`"+txt+"` "+op+" '"+txt+"'"))
		}
		litExprs = append(litExprs, exprFromText("['"+txt+"', `"+txt+"`, '"+txt+"']"), exprFromText("[`"+txt+"`, '"+txt+"']"), exprFromText("[?@ == `"+txt+"` || @ == '"+txt+"']"))
	}
	run(litExprs, univ.Js(`null`, `{"a":1}`, `[1, "1", true, "true", null, "null", 0, "0"]`))
	// (3) nestings of two and three operators over a 12-value operand subset
	maxTok := 6
	if r.Thorough() {
		maxTok = 7
	}
	g := univ.NewGen(univ.LogicFragment())
	nest := buildExprs(g, maxTok, nil)
	var tripleDocs []interface{}
	for _, x := range sub {
		for _, y := range sub {
			for _, z := range sub {
				tripleDocs = append(tripleDocs, map[string]interface{}{"a": x, "b": y, "c": z})
			}
		}
	}
	run(nest, tripleDocs)
	// (4) the same conditions inside filter expressions
	var filterExprs []exprCase
	filterExprs = append(filterExprs, exprFromText("[?@]"), exprFromText("[?!@]"), exprFromText("[?@ == @]"), exprFromText("[?@ || `false`]"), exprFromText("[?@ && `true`]"))
	// comparisons with a literal inside a filter over arrays that also contain non-objects
	for _, lit := range []string{"`null`", "`1`", "'a'", "`[]`", "`{}`", "`false`", "`true`", "`0`"} {
		for _, op := range ops {
			filterExprs = append(filterExprs, exprFromText("[?a "+op+" "+lit+"]"), exprFromText("[?"+lit+" "+op+" a]"), exprFromText("[?a.a "+op+" "+lit+"].c"), exprFromText("[?@ "+op+" "+lit+"]"))
		}
	}
	nestF := buildExprs(g, maxTok-2, nil)
	for _, e := range nestF {
		filterExprs = append(filterExprs, exprFromText("[?"+e.text+"]"), exprFromText("[?"+e.text+"].c"))
	}
	var arrDocs []interface{}
	arrDocs = append(arrDocs, append([]interface{}{}, W...))
	for _, x := range sub {
		for _, y := range sub {
			arrDocs = append(arrDocs, []interface{}{
				map[string]interface{}{"a": x, "b": y, "c": 1.0}, map[string]interface{}{"a": y, "b": x, "c": 2.0},
				map[string]interface{}{"a": x, "b": x, "c": 3.0}, x})
		}
	}
	run(filterExprs, arrDocs)
	// (4b) conditions that are themselves projections: the condition's VALUE decides (a filter projection whose
	// matches all project to null is the empty list, hence false-like, however many elements matched on the way)
	var projConds []exprCase
	for _, cond := range []string{"b[?@]", "b[?@].zz", "b[?c].d", "b[?@ == `null`]", "b[*]", "b[*].zz", "b[]", "b[?!@]", "b.*", "b[::-1]", "b[1:]", "b[?@].zz || `false`", "b[?c].d && `true`", "b[?c]", "b[*].c", "b[?c == `true`].d", "b[0]", "b[?c][0]", "b[?c] | [0]", "b[?d > `0`].c", "b[].c", "b[?@ != `null`]"} {
		projConds = append(projConds, exprFromText("[?"+cond+"]"), exprFromText("[?"+cond+"].k"), exprFromText("[?!("+cond+")].k"), exprFromText("map(&!("+cond+"), @)"), exprFromText("map(&("+cond+" || 'f'), @)"), exprFromText("map(&("+cond+" && 't'), @)"), exprFromText("l[?"+cond+"].k"))
	}
	elems := `{"b":[{"c":true,"d":1},{"c":true}],"k":0}, {"b":[{"c":true}],"k":1}, {"b":[null,0,{"zz":null}],"k":2}, {"b":[],"k":3}, {"b":[null],"k":4}, {"b":[[]],"k":5}, {"b":{"x":null},"k":6}, {"b":{"x":1},"k":7}, {"k":8}, {"b":[{"c":false,"d":1},{"d":2}],"k":9}, {"b":[{"c":true,"d":null},{"c":1,"d":0}],"k":10}, {"b":"s","k":11}, {"b":[false],"k":12}`
	run(projConds, univ.Js(`[`+elems+`]`, `{"l":[`+elems+`]}`, `[]`))
	r.Note("projection_valued_conditions", len(projConds))
	// (5) operands that are COMPUTED (function results, projections, slices, multi-selects) rather than read
	// from the document or a literal: an empty result must compare equal to `[]` / `{}` and be false-like
	// whichever way the implementation happened to allocate it
	computed := []string{"values(o)", "keys(o)", "o.*", "e[*]", "e[]", "e[?@]", "e[:]", "e[::-1]", "map(&@, e)", "sort(e)", "reverse(e)", "to_array(e)", "merge(o)", "merge(o, o)", "[e][0]", "{x: o}.x",
		"e[?`false`]", "sort_by(e, &@)", "not_null(e)", "not_null(o)", "e[1:]", "o.*.a", "e[*].a", "[e[0]]", "to_array(o)"}
	cmpLits := []string{"`[]`", "`{}`", "`[1]`", "`{\"a\":1}`", "`null`", "`[null]`", "`[[]]`", "`[{}]`"}
	var compExprs []exprCase
	for _, x := range computed {
		compExprs = append(compExprs, exprFromText("!"+x), exprFromText(x+" || 'f'"), exprFromText(x+" && 't'"), exprFromText("[?"+x+"]"))
		for _, op := range []string{"==", "!=", "<"} {
			for _, l := range cmpLits {
				compExprs = append(compExprs, exprFromText(x+" "+op+" "+l), exprFromText(l+" "+op+" "+x))
			}
			for _, y := range computed {
				compExprs = append(compExprs, exprFromText(x+" "+op+" "+y))
			}
		}
		compExprs = append(compExprs, exprFromText("["+x+"] == `[[]]`"), exprFromText("{k: "+x+"} == `{\"k\":[]}`"), exprFromText("contains(`[[], {}]`, "+x+")"), exprFromText("contains(["+x+"], `[]`)"))
	}
	run(compExprs, univ.Js(`{"o":{},"e":[]}`, `{"o":{"a":1},"e":[1]}`, `{"o":{"a":[]},"e":[[]]}`, `{"o":null,"e":null}`, `[1]`))
	// (6) operands that ALIAS each other: a document built in Go may hold the same array or object twice, or two
	// slices of one backing array (prefixes, suffixes, different lengths). Equality is equality of VALUES: an
	// "identical container" shortcut must look at the length, and must not be taken for different windows
	{
		var aliasDocs []interface{}
		for _, backing := range [][]interface{}{univ.Js(`1`, `2`, `3`), univ.Js(`"a"`, `"a"`, `"a"`), univ.Js(`[1]`, `[1]`, `{"k":1}`), univ.Js(`null`, `null`), univ.Js(`1`)} {
			n := len(backing)
			for i := 0; i <= n; i++ {
				for j := 0; j <= n; j++ {
					aliasDocs = append(aliasDocs, map[string]interface{}{"a": backing[:i:n], "b": backing[:j:n]}, map[string]interface{}{"a": backing[i:], "b": backing[j:]}, map[string]interface{}{"a": backing[i:], "b": backing[:j]})
				}
			}
			m := map[string]interface{}{"k": backing, "j": backing[:1]}
			aliasDocs = append(aliasDocs, map[string]interface{}{"a": m, "b": m}, map[string]interface{}{"a": m, "b": map[string]interface{}{"k": backing, "j": backing[:1]}}, map[string]interface{}{"a": []interface{}{m, m}, "b": []interface{}{m, backing}})
		}
		var aliasExprs []exprCase
		for _, e := range []string{"a == b", "a != b", "b == a", "[a] == [b]", "{x: a} == {x: b}", "contains([a], b)", "contains([b, a], a)", "a == a", "a[0] == b[0]", "a[1:] == b", "a == b[1:]", "[?a == b]", "!(a == b)", "a == b && 't' || 'f'",
			"a < b", "a <= b", "a[:1] == b[:1]", "a[::-1] == b[::-1]", "to_array(a) == to_array(b)", "not_null(a) == b", "a.k == b.k", "a.k == a.j", "a[0] == a[1]", "[a, b][0] == [a, b][1]", "sort_by([a, b], &length(@))[0] == a", "length(a) == length(b)"} {
			aliasExprs = append(aliasExprs, exprFromText(e))
		}
		stAlias := conform(r, aliasExprs, aliasDocs, conformOpts{keepAliases: true})
		total.add(stAlias)
		nexpr += len(aliasExprs)
		ndocs += len(aliasDocs)
		r.Note("aliased_operand_documents", len(aliasDocs))
	}
	r.Note("computed_operands", len(computed))
	finishConform(r, total, nexpr, ndocs)
	r.Note("operand_values", len(W))
	r.Sample(map[string]interface{}{"expression": "a < b", "document": `{"a":"a","b":"b"}`, "model_outcome": "null (ordering comparators are numbers-only)"})
	r.Sample(map[string]interface{}{"expression": fmt.Sprintf("%s || %s", "`0`", "`\"x\"`"), "model_outcome": "0 (0 is true-like, operand returned)"})
	return harness.Coverage{Exhaustive: true, Bounds: map[string]interface{}{"operand_values": len(W), "nesting_tokens": maxTok, "triple_subset": len(sub)}, Outcomes: distinctOutcomes(total)}
}
