package main

import (
	"encoding/json"
	"fmt"
	"regexp"
	"strings"
	"sync/atomic"
	"unicode/utf8"

	"verif/harness"
	"verif/impl"
	"verif/model"
	"verif/univ"
)

func init() { register("C14", checkC14) }

var sigma14 = []string{"a", "Z", "_", "0", " ", "\"", "'", "`", "\\", "/", "b", "n", "u", "{", "[", ".", "\n", "\x01", "\x7f", "\u0080", "é", "€", "😀", "\uffff", "\ufffd", "\r", "\x00", "\t"}

// three independent JSON escapings of a string
func escMinimal(s string) string {
	var b strings.Builder
	b.WriteByte('"')
	for _, r := range s {
		switch {
		case r == '"':
			b.WriteString(`\"`)
		case r == '\\':
			b.WriteString(`\\`)
		case r < 0x20:
			fmt.Fprintf(&b, `\u%04x`, r)
		default:
			b.WriteRune(r)
		}
	}
	b.WriteByte('"')
	return b.String()
}

func escAllU(s string) string {
	var b strings.Builder
	b.WriteByte('"')
	for _, r := range s {
		if r >= 0x10000 {
			r -= 0x10000
			fmt.Fprintf(&b, `\u%04X\u%04X`, 0xD800+(r>>10), 0xDC00+(r&0x3FF))
		} else {
			fmt.Fprintf(&b, `\u%04X`, r)
		}
	}
	b.WriteByte('"')
	return b.String()
}

func escMixed(s string) string {
	var b strings.Builder
	b.WriteByte('"')
	for i, r := range s {
		switch {
		case r == '"':
			b.WriteString(`\"`)
		case r == '\\':
			b.WriteString(`\\`)
		case r == '/':
			b.WriteString(`\/`)
		case r == '\n':
			b.WriteString(`\n`)
		case r == 'b' && i%2 == 1:
			b.WriteString(`\u0062`)
		case r < 0x20 || r == 0x7f:
			fmt.Fprintf(&b, `\u%04x`, r)
		case r >= 0x10000 && i%2 == 0:
			x := r - 0x10000
			fmt.Fprintf(&b, `\u%04x\u%04x`, 0xD800+(x>>10), 0xDC00+(x&0x3FF))
		default:
			b.WriteRune(r)
		}
	}
	b.WriteByte('"')
	return b.String()
}

func stringsOver(alpha []string, n int, fn func(s string)) int {
	cnt := 0
	for k := 0; k <= n; k++ {
		total := pow(len(alpha), k)
		for i := 0; i < total; i++ {
			var b strings.Builder
			x := i
			for j := 0; j < k; j++ {
				b.WriteString(alpha[x%len(alpha)])
				x /= len(alpha)
			}
			fn(b.String())
			cnt++
		}
	}
	return cnt
}

var identRe = regexp.MustCompile(`^[A-Za-z_][A-Za-z0-9_]*$`)

func checkC14(r *harness.Run) harness.Coverage {
	r.Rule = "all strings of up to n symbols over a 24-symbol alphabet (letters, digit, blank, the three quotes, backslash, slash, escape letters, brackets, dot, LF, U+0001, DEL, U+0080, 2/3/4-byte runes, U+FFFF): (1) quoted identifier in three independent JSON escapings selects exactly that key; (2) raw string (with \\' for ') denotes exactly the string, standalone and in a comparison, for strings the syntax can spell; (3) backtick literal of every JSON value of a universe incl. strings over {a,\",\\,`} denotes exactly that value; (4) every string of up to 3 symbols over a class alphabet lexes as one unquoted identifier iff it matches [A-Za-z_][A-Za-z0-9_]*; (5) whitespace styles of operator sentences. Non-trivial = non-empty string / non-null value; distinct by string or value"
	r.Assumptions = []string{"domain: Unicode scalar values; raw strings without a backslash directly before a quote or at the end (not spellable)", "JSON escaping helpers are written here independently of encoding/json (and cross-checked against it)"}
	n := 3
	if r.Thorough() {
		n = 4
	}
	var all []string
	stringsOver(sigma14, n, func(s string) { all = append(all, s) })
	// longer strings whose plain characters LOOK like escape sequences, surrogate escapes, format verbs or
	// delimiters (a scan of the undecoded text that does not pair backslashes takes them for the real thing)
	all = append(all, `\ud83d`, `C:\udc00\x`, `\uD83D\uDE00`, `\u0041`, `\n`, `\\n`, `a\tb`, `\x41`, `%s%d`, `\u00e9`, `\ud800`, `\udfff\ud800`, `\u`, `\u12`, `\U0001F600`,
		"`", "a`b", "```", "`\\`", `"\"`, `'\`+"`", `\"\"\"`, `{"a": 1}`, `[1, 2]`, `null`, `a.b[0]`, `&a`, `@`, `*`, `||`, `\b\f\r`, `\ud83d\ude00 😀`, `\/`, `</script>`, `\u2028`+"\u2028", `a\`+"\n"+`b`)
	var cases, nontriv int64
	marker := "MARK"
	report := func(kind, sig, expr string, doc interface{}, exp, obs string) {
		r.Report(harness.Violation{Kind: "wrong-value", Signature: sig, Input: map[string]interface{}{"expression": expr, "expression_quoted": fmt.Sprintf("%q", expr), "document": doc}, Expected: exp, Observed: obs, GoTest: goTest(expr, doc, exp)})
	}
	search := func(expr string, doc interface{}) (interface{}, string) {
		jp, cerr, pn := impl.Compile(expr)
		if pn != nil {
			return nil, pn.Error()
		}
		if cerr != nil {
			return nil, "Compile error: " + cerr.Error()
		}
		res, serr, spn := impl.Search(jp, doc)
		if spn != nil {
			return nil, spn.Error()
		}
		if serr != nil {
			return nil, "Search error: " + serr.Error()
		}
		return res, ""
	}
	harness.Parallel(len(all), func(wk, i int) {
		s := all[i]
		if !utf8.ValidString(s) {
			return
		}
		if s != "" {
			atomic.AddInt64(&nontriv, 1)
		}
		// (1) quoted identifiers
		doc := map[string]interface{}{s: marker, s + "x": "other", "x" + s: "other2"}
		for ei, esc := range []string{escMinimal(s), escAllU(s), escMixed(s)} {
			var back string
			if err := json.Unmarshal([]byte(esc), &back); err != nil || back != s {
				harness.Fatal("escaping helper %d is wrong for %q: %q", ei, s, esc)
			}
			atomic.AddInt64(&cases, 1)
			res, fail := search(esc, doc)
			if fail != "" || res != marker {
				report("wrong-value", fmt.Sprintf("quoted-identifier:esc%d:%q", ei, s), esc, doc, "selects the key "+fmt.Sprintf("%q", s), fail+model.Show(res))
			}
			// also as a sub-expression and as a hash key
			res, fail = search("@."+esc, doc)
			atomic.AddInt64(&cases, 1)
			if fail != "" || res != marker {
				report("wrong-value", fmt.Sprintf("quoted-identifier-sub:esc%d:%q", ei, s), "@."+esc, doc, "selects the key", fail+model.Show(res))
			}
		}
		res, fail := search("{"+escMinimal(s)+": `1`}", map[string]interface{}{})
		atomic.AddInt64(&cases, 1)
		if m, ok := res.(map[string]interface{}); fail != "" || !ok || len(m) != 1 || m[s] != 1.0 {
			report("wrong-value", fmt.Sprintf("quoted-hash-key:%q", s), "{"+escMinimal(s)+": `1`}", nil, fmt.Sprintf("{%q: 1}", s), fail+model.Show(res))
		}
		// (2) raw strings
		spellable := !strings.HasSuffix(s, `\`) && !strings.Contains(s, `\'`)
		if spellable {
			rawText := "'" + strings.Replace(s, "'", `\'`, -1) + "'"
			atomic.AddInt64(&cases, 2)
			res, fail := search(rawText, nil)
			if fail != "" || res != s {
				report("wrong-value", fmt.Sprintf("raw-string:%q", s), rawText, nil, fmt.Sprintf("%q", s), fail+model.Show(res))
			}
			d2 := map[string]interface{}{"foo": s}
			res, fail = search("foo == "+rawText, d2)
			if fail != "" || res != true {
				report("wrong-value", fmt.Sprintf("raw-string-compare:%q", s), "foo == "+rawText, d2, "true", fail+model.Show(res))
			}
		}
	})
	// (3) literals
	strAtoms := []interface{}{}
	stringsOver([]string{"a", "\"", "\\", "`"}, 2, func(s string) { strAtoms = append(strAtoms, s) })
	atoms := append(univ.Js(`null`, `false`, `true`, `1`, `-0.5`, `1e3`, `[]`, `{}`), strAtoms...)
	depth := 1
	vals := univ.Values(depth, 2, atoms, []string{"a", "`"})
	if r.Thorough() {
		vals = append(vals, univ.Values(2, 2, append(univ.Js(`null`, `1`, `[]`, `{}`), "`", "a\\`"), []string{"`"})...)
	}
	harness.Parallel(len(vals), func(wk, i int) {
		v := vals[i]
		if v != nil {
			atomic.AddInt64(&nontriv, 1)
		}
		js, _ := json.Marshal(v)
		pretty, _ := json.MarshalIndent(v, " ", "\t")
		for k, text := range []string{string(js), " " + string(pretty) + "\n"} {
			lit := "`" + strings.Replace(text, "`", "\\`", -1) + "`"
			atomic.AddInt64(&cases, 1)
			res, fail := search(lit, nil)
			if fail != "" || !model.DeepEqual(res, v) {
				report("wrong-value", fmt.Sprintf("literal:%d:%s", k, js), lit, nil, string(js), fail+model.Show(res))
			}
			res, fail = search("["+lit+", "+lit+"][1]", map[string]interface{}{})
			atomic.AddInt64(&cases, 1)
			if fail != "" || !model.DeepEqual(res, v) {
				report("wrong-value", fmt.Sprintf("literal-nested:%d:%s", k, js), "["+lit+", "+lit+"][1]", nil, string(js), fail+model.Show(res))
			}
		}
	})
	// (3b) two constant tokens inside ONE expression (a shared scratch buffer in the lexer must not leak
	// from one token into the next): every ordered pair of raw strings / literals / quoted keys
	type constTok struct {
		text string
		val  interface{}
	}
	var consts []constTok
	stringsOver([]string{"a", "'", "\\", "`", "\""}, 2, func(sv string) {
		if strings.HasSuffix(sv, `\`) || strings.Contains(sv, `\'`) {
			return
		}
		consts = append(consts, constTok{"'" + strings.Replace(sv, "'", `\'`, -1) + "'", sv})
		js, _ := json.Marshal(sv)
		consts = append(consts, constTok{"`" + strings.Replace(string(js), "`", "\\`", -1) + "`", sv})
	})
	consts = append(consts, constTok{"`[\"a\\`b\", 1]`", univ.J("[\"a`b\", 1]")}, constTok{"`1`", 1.0}, constTok{"''", ""}, constTok{"'it\\'s'", "it's"}, constTok{"'don\\'t'", "don't"})
	var pairCases int64
	harness.Parallel(len(consts), func(wk, i int) {
		x := consts[i]
		for _, y := range consts {
			for _, z := range []constTok{{"`0`", 0.0}, consts[(i*7+3)%len(consts)]} {
				expr := "[" + x.text + ", " + y.text + ", " + z.text + "]"
				atomic.AddInt64(&pairCases, 1)
				res, fail := search(expr, map[string]interface{}{}) // (a multi-select on null is null)
				want := []interface{}{x.val, y.val, z.val}
				if fail != "" || !model.DeepEqual(res, want) {
					report("wrong-value", "constant-tokens-interfere:"+expr, expr, nil, model.Canon(want), fail+model.Show(res))
				}
			}
			hexpr := "{" + escMinimal("k"+fmt.Sprint(x.val)) + ": " + x.text + ", z: " + y.text + "}"
			res, fail := search(hexpr, map[string]interface{}{})
			atomic.AddInt64(&pairCases, 1)
			m, ok := res.(map[string]interface{})
			if fail != "" || !ok || !model.DeepEqual(m["k"+fmt.Sprint(x.val)], x.val) || !model.DeepEqual(m["z"], y.val) {
				report("wrong-value", "constant-tokens-interfere:"+hexpr, hexpr, nil, "hash of the two constants", fail+model.Show(res))
			}
		}
	})
	cases += pairCases
	// (3c) long quoted identifiers / raw strings / literals around buffer-size boundaries
	var lens []int
	for l := 240; l <= 270; l++ {
		lens = append(lens, l)
	}
	for _, c := range []int{510, 511, 512, 513, 1022, 1023, 1024, 1025, 4094, 4095, 4096, 4097, 65534, 65535, 65536} {
		lens = append(lens, c)
	}
	harness.Parallel(len(lens), func(wk, i int) {
		l := lens[i]
		for _, unit := range []string{"k", "é", "\\", "\""} {
			key := strings.Repeat(unit, (l+len(unit)-1)/len(unit))
			for _, esc := range []string{escMinimal(key), escMixed(key)} {
				atomic.AddInt64(&cases, 1)
				res, fail := search(esc, map[string]interface{}{key: marker, key[:len(key)-1]: "shorter", key + "k": "longer"})
				if fail != "" || res != marker {
					report("wrong-value", fmt.Sprintf("long-quoted-identifier:%d:%q", l, unit), shorten(esc, 60), nil, fmt.Sprintf("selects the %d-byte key", len(key)), fail+shorten(model.Show(res), 80))
				}
			}
			if unit != "\\" {
				rawText := "'" + strings.Replace(key, "'", `\'`, -1) + "'"
				atomic.AddInt64(&cases, 1)
				if res, fail := search(rawText, nil); fail != "" || res != key {
					report("wrong-value", fmt.Sprintf("long-raw-string:%d:%q", l, unit), shorten(rawText, 60), nil, fmt.Sprintf("the %d-byte string", len(key)), fail+shorten(model.Show(res), 80))
				}
			}
		}
	})
	// (4) unquoted identifiers
	// incl. runes >= U+0100 whose low byte is an ASCII letter, digit or underscore (あ 0x42, Ł 0x41, š 0x61, 丰 0x30, ş 0x5F)
	classAlpha := []string{"a", "Z", "_", "0", "9", "-", ".", "\u0080", "é", " ", "z", "A", "@", "`", "{", "\u3042", "\u0141", "\u0161", "\u4e30", "\u015f", "\U00010041"}
	var idStrs []string
	stringsOver(classAlpha, 3, func(s string) {
		if s != "" {
			idStrs = append(idStrs, s)
		}
	})
	harness.Parallel(len(idStrs), func(wk, i int) {
		s := idStrs[i]
		atomic.AddInt64(&cases, 1)
		isID := identRe.MatchString(s)
		if isID {
			atomic.AddInt64(&nontriv, 1)
		}
		types, values, terr := func() (t, v []string, err error) {
			defer func() {
				if p := recover(); p != nil {
					err = fmt.Errorf("panic: %v", p)
				}
			}()
			return impl.Tokens(s)
		}()
		one := terr == nil && len(types) == 1 && types[0] == "tUnquotedIdentifier" && values[0] == s
		if one != isID {
			r.Report(harness.Violation{Kind: "wrong-value", Signature: fmt.Sprintf("unquoted-identifier:%q", s), Input: map[string]interface{}{"expression": s, "expression_quoted": fmt.Sprintf("%q", s)},
				Expected: fmt.Sprintf("one unquoted identifier token = %v", isID), Observed: fmt.Sprintf("tokens %v values %q err %v", types, values, terr)})
		}
		if isID {
			doc := map[string]interface{}{s: marker, s + "_": "other"}
			res, fail := search(s, doc)
			if fail != "" || res != marker {
				report("wrong-value", fmt.Sprintf("unquoted-identifier-select:%q", s), s, doc, "selects the key", fail+model.Show(res))
			}
		}
	})
	// (5) whitespace insignificance on operator sentences (structural, via the AST render)
	st := &c03State{r: r}
	g := univ.NewGen(univ.OpsFragment())
	for w := 1; w <= 4; w++ {
		ss := g.Sentences(w)
		harness.Parallel(len(ss), func(wk, i int) { st.whitespaceOnly(g.Tokens(ss[i])) })
	}
	cases += st.styleChecks
	r.Evaluations = cases
	r.Traces = cases
	r.States = int64(len(all) + len(vals) + len(idStrs))
	r.Transitions = cases
	r.Nontrivial = nontriv
	r.Note("strings", len(all))
	r.Note("literal_values", len(vals))
	r.Note("identifier_candidates", len(idStrs))
	r.Note("whitespace_style_checks", st.styleChecks)
	r.Sample(map[string]interface{}{"string": "a\"\\", "quoted_identifiers": []string{escMinimal("a\"\\"), escAllU("a\"\\"), escMixed("a\"\\")}, "raw": `'a"\'`})
	r.Sample(map[string]interface{}{"value": "[\"`\"]", "literal": "`[\"\\`\"]`"})
	return harness.Coverage{Exhaustive: true, Bounds: map[string]interface{}{"string_symbols": n, "alphabet": len(sigma14), "literal_depth": depth}, Outcomes: 2}
}

// whitespaceOnly is the whitespace part of C03's per-sentence check.
func (s *c03State) whitespaceOnly(toks []model.Tok) {
	tight := model.Spell(toks, model.Tight)
	base, cerr, pn := implRender(tight)
	if pn != nil || cerr != nil {
		return
	}
	for _, st := range []model.Style{model.Spaced, model.Wild} {
		text := model.Spell(toks, st)
		got, cerr, pn := implRender(text)
		atomic.AddInt64(&s.styleChecks, 1)
		if pn != nil || cerr != nil || got != base {
			s.r.Report(harness.Violation{Kind: "wrong-value", Signature: "whitespace-changes-parse:" + tight,
				Input: map[string]interface{}{"expression": text, "tight": tight}, Expected: "same parse as the tight spelling: " + base, Observed: fmt.Sprintf("%s (err %v)", got, cerr)})
		}
	}
}
