package main

import (
	"strings"
	"verif/harness"
	"verif/model"
	"verif/univ"
)

func init() { register("C11", checkC11) }

var errCompounds = []string{"abs(`\"a\"`)", "nosuch(@)", "length(@, @)", "(@[::0])", "max(`[1, \"a\"]`)", "sort_by(@, &k)", "sum(`[1, null]`)", "sort(`[\"b\", true]`)", "merge(`{}`, `1`)"}

func checkC11(r *harness.Run) harness.Coverage {
	r.Rule = "erroring sub-expressions {abs(`\"a\"`) invalid type, nosuch(@) unknown function, length(@,@) invalid arity, (@[::0]) zero step, max(`[1,\"a\"]`) mixed array, sort_by(@,&k) inconsistent keys, sum(`[1,null]`) / sort(`[\"b\",true]`) array with a null / boolean element} placed in every one-hole context up to the structural weight bound over all constructs (each operand of every operator, left / right-hand side / condition of each projection kind, argument positions, expression-reference bodies, multi-select members, hash values, pipe sides) x documents that make the hole evaluated and documents that leave it unevaluated. Oracle: the reference evaluator decides whether the error is reached (under every admissible member order); if so Search must return an error. Non-trivial = reference outcome is an error or a non-null value; distinct by (expression, document)"
	r.Assumptions = []string{"which operands are evaluated: model/eval.go (short-circuit ||/&&, projections over zero elements / non-matching left sides)", "contexts bounded by the weight bound"}
	maxW := 5
	if r.Thorough() {
		maxW = 6
	}
	bad := map[string]bool{"abs": true, "nosuch": true, "max": true, "sum": true, "sort": true, "merge": true}
	keep := func(toks []model.Tok, _ *model.Node) bool {
		for i, t := range toks {
			if t.Kind == model.UID && bad[t.Text] {
				return true
			}
			if t.Kind == model.UID && t.Text == "length" && i+5 < len(toks) && toks[i+2].Kind == model.CUR && toks[i+3].Kind == model.COMMA && toks[i+4].Kind == model.CUR {
				return true
			}
			if t.Kind == model.NUM && t.Text == "0" && i >= 2 && toks[i-1].Kind == model.COLON && toks[i-2].Kind == model.COLON {
				return true
			}
			if t.Kind == model.UID && t.Text == "sort_by" && i+5 < len(toks) && toks[i+2].Kind == model.CUR && toks[i+4].Kind == model.AMP && toks[i+5].Text == "k" {
				return true
			}
		}
		return false
	}
	// the six classic erroring compounds up to the full weight bound; the two array-element compounds (added
	// later) in their own universe up to weight 5 (one universe with all eight at weight 6 needs > 60 GB)
	var exprs []exprCase
	docs := univ.Js(`null`, `{}`, `[]`, `1`, `"a"`, `true`, `[1]`, `[1,2]`, `[[1],[2]]`, `[{"a":1},{"a":null}]`, `[{"k":1},{"k":"a"}]`, `[{"k":1},{"k":2}]`,
		`{"a":1}`, `{"a":null,"b":1}`, `{"a":[1,2],"b":[]}`, `{"a":[],"b":[1]}`, `{"a":{"a":1},"b":{}}`, `{"a":[{"k":1},{"k":"x"}],"b":0}`, `{"a":"","b":"x"}`,
		`{"a":false,"b":true}`, `{"a":[[1]],"b":[[]]}`, `{"a":[null],"b":null}`, `[null]`, `[[]]`, `[{}]`, `{"a":{"b":[1]}}`, `{"b":{"a":[1,2]}}`, `[[1,2],[3]]`, `{"a":[{"a":[1]}]}`, `[0]`)
	docs = append(docs, univ.Js(`{"g":[{"m":[{"v":1,"n":1}]},{"m":[{"v":1,"n":"x"}]},{"m":[{"v":1,"n":3}]},{"m":[{"v":1,"n":4}]}],"h":[{"m":[{"v":2,"n":2},{"v":1,"n":1}]},{"m":[{"v":1,"n":0}]}]}`,
		`{"g":[{"m":[{"v":1,"n":2}]},{"m":[{"v":1,"n":1}]},{"m":[{"v":"x","n":3}]}],"h":[{"m":[{"v":1,"n":5}]},{"m":[{"v":1,"n":"y"}]},{"m":[{"v":1,"n":6}]}]}`)...)
	docs = append(docs, univ.Js(`[5,"x"]`, `[0,"a",2]`, `{"a":[5,"x"],"b":[2]}`, `{"a":[0,"x",2],"b":[1]}`, `[{"k":5},{"k":"x"}]`, `{"a":[{"k":5,"t":"n"},{"k":"x","t":"s"},{"k":-2,"t":"n"}],"b":1}`)...)
	// one-element arrays whose only key is not a number or string (nothing to compare it with, still an error)
	docs = append(docs, univ.Js(`[{"k":true}]`, `[{"k":null}]`, `[{"k":[1]}]`, `[{"j":1}]`, `{"a":[{"k":false,"t":"n"}],"b":2}`)...)
	for _, by := range []string{"max_by(@, &k)", "min_by(@, &k)", "sort_by(@, &k)", "max_by(a, &k)", "min_by(a, &k)", "sort_by(a, &k)"} {
		for _, ctx := range []string{"%s", "%s || `1`", "[%s]", "{x: %s}", "map(&%s, [@])", "%s | [0]", "@ | %s", "not_null(%s, `1`)", "[?`true`] | %s", "length(to_array(%s))", "!%s", "%s == `null`", "[`1`, %s][0]"} {
			exprs = append(exprs, exprFromText(strings.Replace(ctx, "%s", by, -1)))
		}
	}
	// errors that depend on the element: a failing element AFTER a succeeding one, and elements the
	// filter condition excludes (which must then not be evaluated at all)
	for _, e := range []string{"[?abs(@) > `1`] | [0]", "[?abs(@) > `1`]", "a[?abs(k) > `1`] | [0]", "a[?abs(k) > `1`].t | [0]", "[?@ < `1`].abs(@)", "a[?t == 'n'].abs(k)", "a[?t == 's'].abs(k)", "a[?abs(k) > `2`].t",
		"[*].abs(@)", "a[*].abs(k) | [0]", "[].abs(@)", "a[?t == 'n'] | [*].abs(k)", "map(&abs(@), @)", "[?@ == `5`].abs(@) | [0]", "a[?k == `5`].abs(k)", "[abs([0]), abs([1])]", "not_null([0], abs([1]))",
		"{x: abs([1]), x: [0]}", "{x: [0], x: abs([1])}", "[0] || abs([1])", "abs([1]) || [0]", "a[0].k || abs(a[1].k)", "[?abs(@) > `1`][0]", "a[?abs(k) > `1`][0].t",
		// a by-function nested in the key expression of another: the outer failure must survive the inner success
		"sort_by(g, &sort_by(m, &v)[0].n)", "sort_by(g, &max_by(m, &v).n)", "max_by(g, &sort_by(m, &v)[0].n)", "min_by(g, &min_by(m, &v).n)", "sort_by(g, &sort_by(m, &v)[0].n) | [0]", "sort_by(g, &map(&n, m)[0])",
		"sort_by(h, &sort_by(m, &v)[0].n)", "sort_by(h, &max_by(m, &v).n)", "max_by(h, &sort_by(m, &v)[0].n)", "sort_by(h, &map(&n, m)[0])"} {
		exprs = append(exprs, exprFromText(e))
	}
	st := conform(r, exprs, docs, conformOpts{})
	nexpr := len(exprs)
	stA, nA, sampA := conformGen(r, univ.NewGen(univ.ErrFragment(errCompounds[:6])), maxW, keep, docs, conformOpts{})
	stB, nB, _ := conformGen(r, univ.NewGen(univ.ErrFragment(errCompounds[6:])), 5, keep, docs, conformOpts{})
	st.add(stA)
	st.add(stB)
	nexpr += nA + nB
	finishConform(r, st, nexpr, len(docs))
	sampleExprs(r, sampA, docs)
	return harness.Coverage{Exhaustive: true, Bounds: map[string]interface{}{"context_weight": maxW, "erroring_expressions": len(errCompounds), "documents": len(docs)}, Outcomes: distinctOutcomes(st)}
}
