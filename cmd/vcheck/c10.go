package main

import (
	"strings"

	"verif/harness"
	"verif/model"
	"verif/univ"
)

func init() { register("C10", checkC10) }

var u11 = []string{`null`, `true`, `1`, `"a"`, `[]`, `[1]`, `["a"]`, `[1,"a"]`, `[[1]]`, `{}`, `{"a":1}`}

func callNames() []string {
	return append(model.FunctionNames(), "nosuch", "Length", "zzz", "values_of", "a", "sort_bY")
}

// tuples enumerates all n-tuples over alphabet (as index vectors).
func tuples(k, n int, fn func(ix []int)) {
	ix := make([]int, n)
	for {
		fn(ix)
		i := 0
		for ; i < n; i++ {
			ix[i]++
			if ix[i] < k {
				break
			}
			ix[i] = 0
		}
		if i == n {
			return
		}
	}
}

func checkC10(r *harness.Run) harness.Coverage {
	r.Rule = "26 function names + 2 unknown names x arity 0..3 x every argument tuple over U13 = {null,true,1,\"a\",[],[1],[\"a\"],[1,\"a\"],[[1]],{},{\"a\":1},&a,&@} as literals, and through document fields (every pattern of field / expression-reference positions x all value assignments); arity 4 over a 6-value subset; by-expression functions over arrays of length 0..4 (thorough 5) with keys number/string/null/bool/array/mixed; arity 1-2 over 19 further values (arrays with a null/boolean/array/object element, more scalars); every arity 1-2 call in 23 enclosing contexts (after a null left-hand side, multi-select member, not_null argument, projection right-hand side, ...). Oracle: the signature table of the reference model decides well-typed; every ill-typed, wrong-arity or unknown call must be an error. Non-trivial = reference outcome non-null or error; distinct by (expression, document)"
	r.Assumptions = []string{"signature table: model/eval.go (from the JMESPath function specification)", "gap G11: an expression reference in a position typed any gives no verdict"}
	names := callNames()
	lits := []string{}
	for _, u := range u11 {
		lits = append(lits, "`"+u+"`")
	}
	lits = append(lits, "&a", "&@")
	maxAr := 3
	var total conformStats
	nexpr, ndocs := 0, 0
	run := func(exprs []exprCase, docs []interface{}) {
		st := conform(r, exprs, docs, conformOpts{})
		total.add(st)
		nexpr += len(exprs)
		ndocs += len(docs)
		if len(exprs) > 3 {
			sampleExprs(r, exprs[len(exprs)/2:len(exprs)/2+1], docs)
		}
	}
	// (1) literal form
	var litExprs []exprCase
	for _, name := range names {
		for n := 0; n <= maxAr; n++ {
			if n == 0 {
				litExprs = append(litExprs, exprFromText(name+"()"))
				continue
			}
			tuples(len(lits), n, func(ix []int) {
				args := make([]string, n)
				for i, k := range ix {
					args[i] = lits[k]
				}
				litExprs = append(litExprs, exprFromText(name+"("+strings.Join(args, ", ")+")"))
			})
		}
	}
	run(litExprs, univ.Js(`{"a":1}`, `null`))
	// arity 4 over a 6-value subset (all positions of the variadics, arity errors elsewhere)
	sub6 := []string{"`null`", "`1`", "`\"a\"`", "`[1]`", "`{\"a\":1}`", "&a"}
	var ar4 []exprCase
	for _, name := range names {
		tuples(len(sub6), 4, func(ix []int) {
			args := make([]string, 4)
			for i, k := range ix {
				args[i] = sub6[k]
			}
			ar4 = append(ar4, exprFromText(name+"("+strings.Join(args, ", ")+")"))
		})
	}
	run(ar4, univ.Js(`{"a":1}`))
	// (1b) a well-typed call followed by an ill-typed call of the same function in ONE expression
	// (validation memoised per interpreter on a too coarse key must not let the second call through)
	good := map[string][]string{"abs": {"`1`"}, "ceil": {"`1`"}, "floor": {"`1`"}, "avg": {"`[1]`"}, "sum": {"`[1]`"}, "contains": {"`[1]`", "`1`"}, "starts_with": {"`\"a\"`", "`\"a\"`"},
		"ends_with": {"`\"a\"`", "`\"a\"`"}, "join": {"`\"a\"`", "`[\"a\"]`"}, "keys": {"`{\"a\":1}`"}, "values": {"`{\"a\":1}`"}, "length": {"`[1]`"}, "map": {"&a", "`[1]`"}, "max": {"`[1]`"}, "min": {"`[1]`"},
		"max_by": {"`[1]`", "&@"}, "min_by": {"`[1]`", "&@"}, "sort": {"`[1]`"}, "sort_by": {"`[1]`", "&@"}, "merge": {"`{}`", "`{\"a\":1}`"}, "reverse": {"`[1]`"}}
	var seqExprs []exprCase
	for name, g := range good {
		goodCall := name + "(" + strings.Join(g, ", ") + ")"
		tuples(len(lits), len(g), func(ix []int) {
			args := make([]string, len(g))
			for i, k := range ix {
				args[i] = lits[k]
			}
			other := name + "(" + strings.Join(args, ", ") + ")"
			seqExprs = append(seqExprs, exprFromText("["+goodCall+", "+other+"]"), exprFromText("["+goodCall+", "+goodCall+", "+other+"][2]"))
		})
	}
	run(seqExprs, univ.Js(`{"a":1}`))
	// (2) through document fields: every pattern of field / expref positions
	fields := []string{"a", "b", "c"}
	vals := univ.Js(u11...)
	for n := 1; n <= maxAr; n++ {
		tuples(3, n, func(pat []int) { // 0 = field, 1 = &k, 2 = &@
			var exprs []exprCase
			nf := 0
			args := make([]string, n)
			for i, p := range pat {
				switch p {
				case 0:
					args[i] = fields[i]
					nf++
				case 1:
					args[i] = "&k"
				case 2:
					args[i] = "&@"
				}
			}
			for _, name := range names {
				exprs = append(exprs, exprFromText(name+"("+strings.Join(args, ", ")+")"))
			}
			var docs []interface{}
			if nf == 0 {
				docs = univ.Js(`{}`)
			} else {
				tuples(len(vals), nf, func(ix []int) {
					d := map[string]interface{}{}
					j := 0
					for i, p := range pat {
						if p == 0 {
							d[fields[i]] = vals[ix[j]]
							j++
						}
					}
					docs = append(docs, d)
				})
			}
			run(exprs, docs)
		})
	}
	// (3) by-expression keys: arrays of length 0..4 (thorough 5) with keys of every kind
	elems := univ.Js(`{"k":1,"t":0}`, `{"k":2,"t":1}`, `{"k":"a","t":2}`, `{"k":"b","t":3}`, `{"k":null}`, `{"k":true}`, `{"k":[1]}`, `{"t":1}`, `1`, `"a"`)
	maxLen := 4
	if r.Thorough() {
		maxLen = 5
	}
	var arrs []interface{}
	for n := 0; n <= maxLen; n++ {
		if n == 0 {
			arrs = append(arrs, []interface{}{})
			continue
		}
		tuples(len(elems), n, func(ix []int) {
			a := make([]interface{}, n)
			for i, k := range ix {
				a[i] = elems[k]
			}
			arrs = append(arrs, a)
		})
	}
	var byExprs []exprCase
	for _, fn := range []string{"sort_by", "max_by", "min_by"} {
		for _, body := range []string{"&k", "&@", "&t", "&to_string(k)", "&nosuch(@)",
			// a by-function inside the key expression of another (per-call failure state must not be shared), an erroring call inside the key
			"&sort_by([k, k], &@)[0]", "&max_by([k], &@)", "&min_by([t, k], &to_string(@))", "&abs(k)", "&length(k)", "&sort([k, k])[0]"} {
			byExprs = append(byExprs, exprFromText(fn+"(@, "+body+")"))
		}
	}
	byExprs = append(byExprs, exprFromText("map(&k, @)"), exprFromText("map(&abs(k), @)"), exprFromText("map(@, &k)"))
	run(byExprs, arrs)
	// (4) long arrays: one offending key at every position, for lengths around the points where sorting
	// code changes strategy (insertion blocks of 20, small-array cut-offs at 12/16)
	var longArrs []interface{}
	for _, n := range []int{13, 16, 17, 21, 24, 33, 44, 64} {
		for _, order := range []int{0, 1, 2} { // ascending, descending, constant
			for _, badKind := range []string{`"x"`, `null`, `true`, `MISSING`} {
				for pos := 0; pos < n; pos++ {
					if n > 24 && pos%3 != 0 && pos != n-1 && pos != n-2 && pos != 20 && pos != 40 {
						continue
					}
					a := make([]interface{}, n)
					for i := 0; i < n; i++ {
						k := float64(i)
						if order == 1 {
							k = float64(n - i)
						} else if order == 2 {
							k = 7
						}
						a[i] = map[string]interface{}{"k": k, "t": float64(i)}
					}
					if badKind == "MISSING" {
						a[pos] = map[string]interface{}{"t": float64(pos)}
					} else {
						a[pos] = map[string]interface{}{"k": univ.J(badKind), "t": float64(pos)}
					}
					longArrs = append(longArrs, a)
				}
			}
		}
	}
	var longExprs []exprCase
	for _, fn := range []string{"sort_by", "max_by", "min_by"} {
		longExprs = append(longExprs, exprFromText(fn+"(@, &k)"), exprFromText(fn+"(@, &abs(k))"))
	}
	longExprs = append(longExprs, exprFromText("map(&abs(k), @)"), exprFromText("sort_by(@, &t)[0].t"))
	run(longExprs, longArrs)
	r.Note("long_arrays", len(longArrs))
	// (5) more argument values in arity 1 and 2: arrays holding a null / boolean / array / object next to
	// numbers or strings (element checks that look at the kind of each element), more scalars
	uExt := []string{"[null]", "[1,null]", "[null,1]", "[\"a\",null]", "[1,true]", "[1,[1]]", "[1,{}]", "[\"a\",1]", "[true]", "[{}]", "[[]]", "[1,2,null]", "1.5", "-1", "0", "\"\"", "\"1\"", "false", "{\"a\":null}"}
	var extExprs []exprCase
	for _, name := range names {
		for _, u := range uExt {
			extExprs = append(extExprs, exprFromText(name+"(`"+u+"`)"))
			for _, l := range lits {
				extExprs = append(extExprs, exprFromText(name+"(`"+u+"`, "+l+")"), exprFromText(name+"("+l+", `"+u+"`)"))
			}
		}
	}
	run(extExprs, univ.Js(`{"a":1}`))
	// (5b) LONG ill-typed arguments (error messages quote or truncate the offending value: bytes vs runes): strings of
	// 17-70 multi-byte characters, long arrays and objects of them, long ASCII; the sizes also follow the mined constants
	{
		var longVals []string
		for _, n := range harness.Sizes([]int{17, 25, 40, 61, 64, 65, 70}, 15, 300) {
			for _, unit := range []string{"あ", "é", "😀", "x", "日é"} {
				longVals = append(longVals, "\""+strings.Repeat(unit, n)+"\"")
			}
		}
		longVals = append(longVals, "[\""+strings.Repeat("あ", 30)+"\", \""+strings.Repeat("é", 30)+"\"]", "{\""+strings.Repeat("😀", 20)+"\": \""+strings.Repeat("日", 25)+"\"}", "["+strings.TrimSuffix(strings.Repeat("\"é\",", 40), ",")+"]")
		var lvExprs []exprCase
		for _, name := range names {
			for _, u := range longVals {
				lvExprs = append(lvExprs, exprFromText(name+"(`"+u+"`)"), exprFromText(name+"(a, `"+u+"`)"), exprFromText(name+"(`"+u+"`, a)"), exprFromText(name+"(b)"))
			}
		}
		docsL := []interface{}{map[string]interface{}{"a": 1.0, "b": strings.Repeat("あ", 25)}, map[string]interface{}{"a": []interface{}{1.0}, "b": map[string]interface{}{strings.Repeat("é", 40): strings.Repeat("😀", 17)}}}
		run(lvExprs, docsL)
		r.Note("long_ill_typed_arguments", len(lvExprs))
	}
	// (6) every arity-1 and arity-2 call inside a larger expression: after a null or non-null left-hand side,
	// as a multi-select member, after a pipe, as an argument of not_null before/after a non-null argument,
	// as a projection right-hand side. The reference evaluator decides whether the call is reached.
	ctxs := []string{"c.%s", "a.%s", "b[5].%s", "[%s]", "{x:%s}", "@|%s", "not_null(a, %s)", "not_null(%s, a)", "not_null(c, a, %s)", "[a, %s]", "%s.a", "%s|a", "b[*].%s", "b[?%s]", "abs(not_null(a, %s))",
		"%s || a", "%s && a", "c || %s", "a && %s", "!%s", "%s == a", "a != %s", "[?%s || a]"}
	var ctxExprs []exprCase
	for _, name := range names {
		for n := 1; n <= 2; n++ {
			tuples(len(lits), n, func(ix []int) {
				args := make([]string, n)
				for i, k := range ix {
					args[i] = lits[k]
				}
				call := name + "(" + strings.Join(args, ", ") + ")"
				for _, c := range ctxs {
					ctxExprs = append(ctxExprs, exprFromText(strings.Replace(c, "%s", call, 1)))
				}
			})
		}
	}
	run(ctxExprs, univ.Js(`{"a":1,"b":[1,"a"]}`, `{"a":null,"b":[]}`))
	r.Note("calls_in_context", len(ctxExprs))
	finishConform(r, total, nexpr, ndocs)
	return harness.Coverage{Exhaustive: true, Bounds: map[string]interface{}{"names": len(names), "max_arity_exhaustive": maxAr, "by_expression_array_length": maxLen}, Outcomes: distinctOutcomes(total)}
}
