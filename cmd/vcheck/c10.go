package main

import (
	"strings"

	"verif/harness"
	"verif/model"
	"verif/univ"
)

func init() { register("C10", checkC10) }

var u11 = []string{`null`, `true`, `1`, `"a"`, `[]`, `[1]`, `["a"]`, `[1,"a"]`, `[[1]]`, `{}`, `{"a":1}`}

func callNames() []string {
	return append(model.FunctionNames(), "nosuch", "Length")
}

// tuples enumerates all n-tuples over alphabet (as index vectors).
func tuples(k, n int, fn func(ix []int)) {
	ix := make([]int, n)
	for {
		fn(ix)
		i := 0
		for ; i < n; i++ {
			ix[i]++
			if ix[i] < k {
				break
			}
			ix[i] = 0
		}
		if i == n {
			return
		}
	}
}

func checkC10(r *harness.Run) harness.Coverage {
	r.Rule = "26 function names + 2 unknown names x arity 0..3 x every argument tuple over U13 = {null,true,1,\"a\",[],[1],[\"a\"],[1,\"a\"],[[1]],{},{\"a\":1},&a,&@} as literals, and through document fields (every pattern of field / expression-reference positions x all value assignments); arity 4 over a 6-value subset; by-expression functions over arrays of length 0..3 with keys number/string/null/bool/array/mixed. Oracle: the signature table of the reference model decides well-typed; every ill-typed, wrong-arity or unknown call must be an error. Non-trivial = reference outcome non-null or error; distinct by (expression, document)"
	r.Assumptions = []string{"signature table: model/eval.go (from the JMESPath function specification)", "gap G11: an expression reference in a position typed any gives no verdict"}
	names := callNames()
	lits := []string{}
	for _, u := range u11 {
		lits = append(lits, "`"+u+"`")
	}
	lits = append(lits, "&a", "&@")
	maxAr := 3
	var total conformStats
	nexpr, ndocs := 0, 0
	run := func(exprs []exprCase, docs []interface{}) {
		st := conform(r, exprs, docs, conformOpts{})
		total.add(st)
		nexpr += len(exprs)
		ndocs += len(docs)
		if len(exprs) > 3 {
			sampleExprs(r, exprs[len(exprs)/2:len(exprs)/2+1], docs)
		}
	}
	// (1) literal form
	var litExprs []exprCase
	for _, name := range names {
		for n := 0; n <= maxAr; n++ {
			if n == 0 {
				litExprs = append(litExprs, exprFromText(name+"()"))
				continue
			}
			tuples(len(lits), n, func(ix []int) {
				args := make([]string, n)
				for i, k := range ix {
					args[i] = lits[k]
				}
				litExprs = append(litExprs, exprFromText(name+"("+strings.Join(args, ", ")+")"))
			})
		}
	}
	run(litExprs, univ.Js(`{"a":1}`, `null`))
	// arity 4 over a 6-value subset (all positions of the variadics, arity errors elsewhere)
	sub6 := []string{"`null`", "`1`", "`\"a\"`", "`[1]`", "`{\"a\":1}`", "&a"}
	var ar4 []exprCase
	for _, name := range names {
		tuples(len(sub6), 4, func(ix []int) {
			args := make([]string, 4)
			for i, k := range ix {
				args[i] = sub6[k]
			}
			ar4 = append(ar4, exprFromText(name+"("+strings.Join(args, ", ")+")"))
		})
	}
	run(ar4, univ.Js(`{"a":1}`))
	// (2) through document fields: every pattern of field / expref positions
	fields := []string{"a", "b", "c"}
	vals := univ.Js(u11...)
	for n := 1; n <= maxAr; n++ {
		tuples(3, n, func(pat []int) { // 0 = field, 1 = &k, 2 = &@
			var exprs []exprCase
			nf := 0
			args := make([]string, n)
			for i, p := range pat {
				switch p {
				case 0:
					args[i] = fields[i]
					nf++
				case 1:
					args[i] = "&k"
				case 2:
					args[i] = "&@"
				}
			}
			for _, name := range names {
				exprs = append(exprs, exprFromText(name+"("+strings.Join(args, ", ")+")"))
			}
			var docs []interface{}
			if nf == 0 {
				docs = univ.Js(`{}`)
			} else {
				tuples(len(vals), nf, func(ix []int) {
					d := map[string]interface{}{}
					j := 0
					for i, p := range pat {
						if p == 0 {
							d[fields[i]] = vals[ix[j]]
							j++
						}
					}
					docs = append(docs, d)
				})
			}
			run(exprs, docs)
		})
	}
	// (3) by-expression keys: arrays of length 0..3 (thorough 4) with keys of every kind
	elems := univ.Js(`{"k":1,"t":0}`, `{"k":2,"t":1}`, `{"k":"a","t":2}`, `{"k":"b","t":3}`, `{"k":null}`, `{"k":true}`, `{"k":[1]}`, `{"t":1}`, `1`, `"a"`)
	maxLen := 3
	if r.Thorough() {
		maxLen = 4
	}
	var arrs []interface{}
	for n := 0; n <= maxLen; n++ {
		if n == 0 {
			arrs = append(arrs, []interface{}{})
			continue
		}
		tuples(len(elems), n, func(ix []int) {
			a := make([]interface{}, n)
			for i, k := range ix {
				a[i] = elems[k]
			}
			arrs = append(arrs, a)
		})
	}
	var byExprs []exprCase
	for _, fn := range []string{"sort_by", "max_by", "min_by"} {
		for _, body := range []string{"&k", "&@", "&t", "&to_string(k)", "&nosuch(@)"} {
			byExprs = append(byExprs, exprFromText(fn+"(@, "+body+")"))
		}
	}
	byExprs = append(byExprs, exprFromText("map(&k, @)"), exprFromText("map(&abs(k), @)"), exprFromText("map(@, &k)"))
	run(byExprs, arrs)
	finishConform(r, total, nexpr, ndocs)
	return harness.Coverage{Exhaustive: true, Bounds: map[string]interface{}{"names": len(names), "max_arity_exhaustive": maxAr, "by_expression_array_length": maxLen}, Outcomes: distinctOutcomes(total)}
}
