package main

import (
	"bytes"
	"encoding/json"
	"fmt"
	"os"
	"os/exec"
	"path/filepath"
	"strings"
	"sync/atomic"

	"verif/harness"
	"verif/impl"
	"verif/model"
	"verif/univ"
)

func init() { register("C19", checkC19) }

type c19Expr struct {
	text string
	kind string
}

func runJpgo(bin string, args []string, stdin []byte) (stdout, stderr string, status int) {
	return runJpgoFile(bin, args, stdin, "")
}

// runJpgoFile: stdinFile != "" connects standard input to that regular file (jpgo expr < file)
// instead of a pipe.
func runJpgoFile(bin string, args []string, stdin []byte, stdinFile string) (stdout, stderr string, status int) {
	cmd := exec.Command(bin, args...)
	cmd.Stdin = bytes.NewReader(stdin)
	if stdinFile != "" {
		f, err := os.Open(stdinFile)
		if err != nil {
			return "", err.Error(), -1
		}
		defer f.Close()
		cmd.Stdin = f
	}
	var o, e bytes.Buffer
	cmd.Stdout = &o
	cmd.Stderr = &e
	err := cmd.Run()
	status = 0
	if err != nil {
		if ee, ok := err.(*exec.ExitError); ok {
			status = ee.ExitCode()
		} else {
			status = -1
		}
	}
	return o.String(), e.String(), status
}

func checkC19(r *harness.Run) harness.Coverage {
	r.Level = "fault_enumeration"
	r.Rule = "the jpgo binary built from the current tree is run on the full product of expressions {valid, returning each JSON type, multi-line results, null; lexer syntax errors; parser syntax errors; compile-but-fail-at-evaluation; leading '-'} x input texts {valid documents of every type; empty; whitespace; truncated; trailing garbage; two documents; invalid UTF-8; huge numbers} x channel {-input file, stdin, missing file}: one process per case; each case is the trace 'fails at stage k' or 'succeeds' of the six-stage pipeline. Oracle: for a valid expression and input, stdout = json.MarshalIndent(jmespath.Search(expr, doc)) + newline computed in-process from the same tree and exit status 0; otherwise stdout empty and status non-zero; both channels agree. Non-trivial = every case except the trivial success of '@'; distinct by (expression, input, channel)"
	r.Assumptions = []string{"input validity is decided by encoding/json as jpgo does", "a library result without JSON serialisation is judged as an evaluation failure (one root cause, one property: C16)", "the -ast mode is outside the property"}
	bin := filepath.Join(harness.Root, "bin", "jpgo")
	build := exec.Command("go", "build", "-o", bin, "github.com/jmespath/go-jmespath/cmd/jpgo")
	build.Dir = harness.Root
	if out, err := build.CombinedOutput(); err != nil {
		harness.Fatal("cannot build jpgo from the current tree: %v\n%s", err, out)
	}
	exprs := []c19Expr{
		{"@", "valid"}, {"a", "valid"}, {"a.b", "valid"}, {"a[0]", "valid"}, {"[a, b]", "valid"}, {"{x: a, y: b}", "valid"}, {"length(@)", "valid-may-fail"},
		{"a[*].b", "valid"}, {"`null`", "valid"}, {"`true`", "valid"}, {"`1.5`", "valid"}, {"'raw <&> string'", "valid"}, {"`[]`", "valid"}, {"`{}`", "valid"},
		{"`{\"k\": [1, {\"n\": null}], \"s\": \"é\\n\"}`", "valid"}, {"keys(@)", "valid-may-fail"}, {"sort_by(@, &a)", "valid-may-fail"}, {"to_string(@)", "valid"}, {"a || b", "valid"}, {"*", "valid"},
		{"avg(@)", "valid-may-fail"}, {"sum(@)", "valid-may-fail"}, {"keys(@)[0]", "valid-may-fail"}, {"'100%'", "valid"}, {"join('%', keys(@))", "valid-may-fail"}, {"to_number(@)", "valid"}, {" a ", "valid"}, {"\"a\"", "valid"},
		// results that are false-like or empty at the top level (the exit status says "evaluated", not "truthy")
		{"`false`", "valid"}, {"a == b", "valid"}, {"!@", "valid"}, {"`0`", "valid"}, {"''", "valid"}, {"a && b", "valid"}, {"@ == `false`", "valid"}, {"`\"x\\u0001y\\u007f\\u2028\"`", "valid"},
		// white space INSIDE tokens is content, not layout: raw TAB / LF / CR in raw strings (valid), in quoted identifiers and JSON literals (not JSON: syntax errors)
		{"'a\tb'", "valid"}, {"'x\ny' == @", "valid"}, {"contains(to_string(@), 'a\tb')", "valid"}, {"'l1\r\nl2'", "valid"}, {"[ a ,\n\tb ]", "valid"}, {"a\n|\n@", "valid"},
		{"\"a\tb\"", "syntax"}, {"`\"a\nb\"`", "syntax"}, {"\"a\rb\"", "syntax"}, {"{\"k\tk\": a}", "syntax"},
		{"", "syntax"}, {"a.", "syntax"}, {"a[", "syntax"}, {"#", "syntax"}, {"a = b", "syntax"}, {"'unclosed", "syntax"}, {"`{bad`", "syntax"}, {"a b", "syntax"}, {"[0", "syntax"}, {"@(a)", "syntax"}, {"f(a b)", "syntax"},
		{"a\u0080", "syntax"}, {"\xff", "syntax"}, {"a | ", "syntax"}, {"{a:", "syntax"},
		{"nosuch(@)", "eval-error"}, {"abs('x')", "eval-error"}, {"length(@, @)", "eval-error"}, {"@[::0] || abs('x')", "eval-error"}, {"[a, nosuch(b)]", "eval-error"}, {"merge('a')", "eval-error"},
		{"-1", "leading-dash"}, {"-a", "leading-dash"}, {"--", "leading-dash"}, {"-input", "leading-dash"},
	}
	inputs := []struct {
		text string
		kind string
	}{
		{`{"a": {"b": [1, 2]}, "b": "x"}`, "valid"}, {`[{"a": 2, "b": 1}, {"a": 1, "b": 2}]`, "valid"}, {`null`, "valid"}, {`true`, "valid"}, {`1.5`, "valid"}, {`"str"`, "valid"},
		{`[]`, "valid"}, {`{}`, "valid"}, {`[1, 2, 3]`, "valid"}, {` {"a": [ {"b": 1}, {"b": null} ] } ` + "\n", "valid"}, {`{"a": "é😀", "b": "<&>"}`, "valid"}, {`12345678901234567890`, "valid"}, {`["inf", "1"]`, "valid"},
		{`{"b": "lit \\u003c here <&>", "a": "\u003c"}`, "valid"},
		{`{"a": 1}` + strings.Repeat(" ", 32768-8), "valid"}, {strings.Repeat(" ", 65536-4) + `[1]` + "\n", "valid"}, {`[` + strings.Repeat("1,", 16383) + `1]`, "valid"},
		{`9223372036854775808`, "valid"}, {`[4611686018427387904, 4611686018427387904]`, "valid"}, {`{"a": "100%", "b": "a%20b %s %d", "100%": 1}`, "valid"},
		{"\xef\xbb\xbf" + `{"a": 1}`, "invalid"}, {`{"a": 1}` + "\xef\xbb\xbf", "invalid"},
		{`false`, "valid"}, {`0`, "valid"}, {`""`, "valid"}, {`-1`, "valid"}, {` -2.5e1`, "valid"}, {`-0`, "valid"}, {`1E2`, "valid"}, {"\n\n[\n1\n,\n2\n]\n", "valid"}, {"\t\r\n {\"a\": 1}\r\n\t", "valid"},
		// characters that Go's unicode.IsSpace / bytes.TrimSpace accept but JSON does not
		{`{"a": 1}` + "\f", "invalid"}, {"\v" + `{"a": 1}`, "invalid"}, {`{"a": 1}` + "\u00a0\n", "invalid"}, {"\u0085" + `[1]`, "invalid"}, {`{"a": 1}` + "\x00", "invalid"},
		{``, "invalid"}, {"  \n", "invalid"}, {`{"a": `, "invalid"}, {`{"a": 1} x`, "invalid"}, {`{"a": 1} {"a": 2}`, "invalid"}, {`{'a': 1}`, "invalid"}, {`[1, 2,]`, "invalid"}, {"\xff\xfe", "invalid"}, {`"` + "\xff" + `"`, "as-go-decodes"}, {`1e999`, "as-go-decodes"}, {`nul`, "invalid"},
	}
	handWritten := len(exprs)
	if r.Thorough() {
		// thorough: every sentence of the mixed fragment up to structural weight 4, on the first inputs of every type
		seen := map[string]bool{}
		for _, e := range exprs {
			seen[e.text] = true
		}
		for _, e := range buildExprs(univ.NewGen(univ.MixedFragment()), 4, nil) {
			if !seen[e.text] && !strings.HasPrefix(e.text, "-") {
				seen[e.text] = true
				exprs = append(exprs, c19Expr{e.text, "generated"})
			}
		}
	}
	tmp, err := os.MkdirTemp("", "verif-c19-")
	if err != nil {
		harness.Fatal("%v", err)
	}
	defer os.RemoveAll(tmp)
	files := make([]string, len(inputs))
	for i, in := range inputs {
		files[i] = filepath.Join(tmp, fmt.Sprintf("in%d.json", i))
		os.WriteFile(files[i], []byte(in.text), 0o644)
	}
	_, dsErr := os.Stat("/dev/stdin")
	devStdin := dsErr == nil
	type job struct{ ei, ii, ch int }
	var jobs []job
	for ei := range exprs {
		for ii := range inputs {
			if ei >= handWritten && ii >= 9 {
				continue // generated expressions: the first nine (valid, one per JSON type) inputs
			}
			for ch := 0; ch < 2; ch++ {
				jobs = append(jobs, job{ei, ii, ch})
			}
			if ei < handWritten {
				jobs = append(jobs, job{ei, ii, 3}) // stdin redirected from a regular file
			}
			if devStdin && ei < handWritten {
				jobs = append(jobs, job{ei, ii, 4}) // -input names a file that is not a regular file (a pipe: size 0, read to EOF)
			}
		}
		jobs = append(jobs, job{ei, -1, 2}) // missing file
	}
	var runs, nontriv, succ, fail int64
	orderDependent := make([]bool, len(exprs)*len(inputs))
	stdoutOf := make([][2]string, len(exprs)*len(inputs))
	statusOf := make([][2]int, len(exprs)*len(inputs))
	harness.Parallel(len(jobs), func(wk, ji int) {
		j := jobs[ji]
		e := exprs[j.ei]
		var args []string
		var stdin []byte
		inText := ""
		switch j.ch {
		case 0:
			args = []string{"-input", files[j.ii], e.text}
			inText = inputs[j.ii].text
		case 1:
			args = []string{e.text}
			stdin = []byte(inputs[j.ii].text)
			inText = inputs[j.ii].text
		case 2:
			args = []string{"-input", filepath.Join(tmp, "does-not-exist.json"), e.text}
		case 3:
			args = []string{e.text}
			inText = inputs[j.ii].text
		case 4:
			args = []string{"-input", "/dev/stdin", e.text}
			stdin = []byte(inputs[j.ii].text)
			inText = inputs[j.ii].text
		}
		var stdout, stderr string
		var status int
		if j.ch == 3 {
			stdout, stderr, status = runJpgoFile(bin, args, nil, files[j.ii])
		} else {
			stdout, stderr, status = runJpgo(bin, args, stdin)
		}
		atomic.AddInt64(&runs, 1)
		if e.text != "@" {
			atomic.AddInt64(&nontriv, 1)
		}
		// expected, computed in-process from the same tree
		wantOut, wantOK := "", false
		var orderAlternatives []model.Outcome // set when object-member order makes several outputs admissible
		if j.ch != 2 && !strings.HasPrefix(e.text, "-") {
			var doc interface{}
			if jerr := json.Unmarshal([]byte(inText), &doc); jerr == nil {
				if res, serr, pn := impl.SearchOnce(e.text, doc); serr == nil && pn == nil {
					if js, merr := json.MarshalIndent(res, "", "  "); merr == nil {
						wantOut, wantOK = string(js)+"\n", true
					}
				}
				if toks, lerr := model.Lex(e.text); lerr == nil {
					if ast, _, perr := model.Parse(toks); perr == nil {
						if outs := model.Outcomes(ast, doc, nil); len(outs) > 1 {
							orderAlternatives = outs
						}
					}
				}
			}
		}
		if orderAlternatives != nil && j.ch != 2 {
			// object-member order is unspecified: the two channels may legitimately print different orders
			orderDependent[j.ei*len(inputs)+j.ii] = true
		}
		if wantOK && orderAlternatives != nil && stdout != wantOut {
			// another admissible member order: accept the exact serialisation of any admissible outcome
			var got interface{}
			if json.Unmarshal([]byte(stdout), &got) == nil {
				for _, o := range orderAlternatives {
					if o.Err == nil && model.Match(got, o.Val) {
						if js, merr := json.MarshalIndent(got, "", "  "); merr == nil && string(js)+"\n" == stdout {
							wantOut = stdout
						}
					}
				}
			}
			orderDependent[j.ei*len(inputs)+j.ii] = true
		}
		in := map[string]interface{}{"expression": e.text, "argv": args, "channel": []string{"-input file", "stdin", "missing file", "stdin from a regular file", "-input /dev/stdin fed by a pipe"}[j.ch], "input_text": shorten(inText, 200), "input_bytes": len(inText)}
		if wantOK {
			atomic.AddInt64(&succ, 1)
			if stdout != wantOut || status != 0 {
				r.Report(harness.Violation{Kind: "cli", Signature: fmt.Sprintf("cli-success:%s:%s", e.kind, []string{"file", "stdin", "missing", "stdin-file", "input-pipe"}[j.ch]) + ":" + e.text,
					Input: in, Expected: fmt.Sprintf("exit 0 and stdout %q", wantOut), Observed: fmt.Sprintf("exit %d, stdout %q, stderr %q", status, stdout, shorten(stderr, 200))})
			}
		} else {
			atomic.AddInt64(&fail, 1)
			if stdout != "" || status == 0 {
				r.Report(harness.Violation{Kind: "cli", Signature: fmt.Sprintf("cli-failure:%s:%s", e.kind, []string{"file", "stdin", "missing", "stdin-file", "input-pipe"}[j.ch]) + ":" + e.text,
					Input: in, Expected: "no result on standard output and a non-zero exit status", Observed: fmt.Sprintf("exit %d, stdout %q, stderr %q", status, shorten(stdout, 200), shorten(stderr, 200))})
			}
		}
		if j.ch < 2 {
			stdoutOf[j.ei*len(inputs)+j.ii][j.ch] = stdout
			statusOf[j.ei*len(inputs)+j.ii][j.ch] = status
		}
	})
	for _, j := range jobs {
		if j.ch != 0 {
			continue
		}
		k := j.ei*len(inputs) + j.ii
		if (stdoutOf[k][0] != stdoutOf[k][1] && !orderDependent[k]) || (statusOf[k][0] == 0) != (statusOf[k][1] == 0) {
			r.Report(harness.Violation{Kind: "cli", Signature: "cli-channels-disagree:" + exprs[j.ei].text,
				Input:    map[string]interface{}{"expression": exprs[j.ei].text, "input_text": inputs[j.ii].text},
				Expected: "-input file and stdin give the same output and status", Observed: fmt.Sprintf("file: exit %d %q; stdin: exit %d %q", statusOf[k][0], stdoutOf[k][0], statusOf[k][1], stdoutOf[k][1])})
		}
	}
	r.Evaluations = runs
	r.Traces = runs
	r.States = runs
	r.Transitions = runs
	r.Nontrivial = nontriv
	r.Note("process_runs", runs)
	r.Note("expected_success", succ)
	r.Note("expected_failure", fail)
	r.Note("expressions", len(exprs))
	r.Note("inputs", len(inputs))
	r.Sample(map[string]interface{}{"argv": []string{"jpgo", "-input", "in0.json", "a.b"}, "input": inputs[0].text, "expected": "exit 0, stdout = indented JSON of [1,2]"})
	r.Sample(map[string]interface{}{"argv": []string{"jpgo", "nosuch(@)"}, "stdin": inputs[0].text, "expected": "empty stdout, non-zero exit"})
	return harness.Coverage{Exhaustive: true, Bounds: map[string]interface{}{"expressions": len(exprs), "hand_written_expressions": handWritten, "inputs": len(inputs), "channels": 5, "product": "full (hand-written expressions x all inputs x all channels); generated expressions x 9 valid inputs x 2 channels"}, Outcomes: 2}
}
