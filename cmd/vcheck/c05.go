package main

import (
	"encoding/json"
	"fmt"
	"os"
	"strings"
	"sync/atomic"
	"time"

	"verif/harness"
	"verif/impl"
	"verif/model"
	"verif/univ"
)

func init() { register("C05", checkC05) }

var hostileDocs = univ.Js(`null`, `true`, `0`, `-1.5`, `1e300`, `""`, `"a"`, `"é😀"`, `[]`, `{}`, `[null]`, `[[]]`, `[{}]`, `{"a":null}`,
	`[1,2,3]`, `["a","b"]`, `[1,"a",null,true,[],{}]`, `[[1,2],[3,[4,[5]]]]`, `{"a":1,"b":2}`, `{"a":{"a":{"a":{"a":1}}}}`, `{"a":[1,2,3],"b":["x"]}`,
	`[{"a":1,"b":"x"},{"a":2,"b":"y"},{"a":null}]`, `{"a":[{"a":[{"a":[]}]}]}`, `{"":0}`, `{"a b":1,"é":2}`, `[0,1,2,3,4,5,6,7,8,9]`, `[[],[[]],[[[]]]]`,
	`{"a":"1","b":"x"}`, `[{"k":1},{"k":"a"}]`, `{"a":[3,1,2],"b":{"b":{"b":[]}}}`)

// watch runs a watchdog over per-worker journals: a case that does not finish
// within the (very generous) limit is reported as a hang and the process exits.
type watch struct {
	cur   []atomic.Value // current case per worker
	since []int64        // unix nanos when it started
	stop  chan struct{}
}

func newWatch(r *harness.Run, limit time.Duration) *watch {
	n := harness.Workers()
	w := &watch{cur: make([]atomic.Value, n), since: make([]int64, n), stop: make(chan struct{})}
	go func() {
		t := time.NewTicker(2 * time.Second)
		defer t.Stop()
		for {
			select {
			case <-w.stop:
				return
			case <-t.C:
				now := time.Now().UnixNano()
				for i := range w.cur {
					s := atomic.LoadInt64(&w.since[i])
					if s != 0 && time.Duration(now-s) > limit {
						c, _ := w.cur[i].Load().(string)
						r.Report(harness.Violation{Kind: "hang", Signature: "hang:" + shorten(c, 60),
							Input: map[string]interface{}{"case": c}, Expected: "Compile/Search return", Observed: fmt.Sprintf("no return after %s", limit)})
						// the goroutine can not be stopped: finish the run now
						exit := r.Finish(harness.Coverage{Exhaustive: false})
						harnessExit(exit)
					}
				}
			}
		}
	}()
	return w
}

var harnessExit = func(code int) { osExit(code) }

func (w *watch) begin(worker int, c string) {
	w.cur[worker].Store(c)
	atomic.StoreInt64(&w.since[worker], time.Now().UnixNano())
}
func (w *watch) end(worker int) { atomic.StoreInt64(&w.since[worker], 0) }
func (w *watch) close()         { close(w.stop) }

func shorten(s string, n int) string {
	if len(s) > n {
		return s[:n] + fmt.Sprintf("…(%d bytes)", len(s))
	}
	return s
}

// tryExpr compiles and searches one expression text; returns whether it compiled.
func tryExpr(r *harness.Run, text string, docs []interface{}, sigPrefix string) (compiled bool, searches int64) {
	jp, cerr, pn := impl.Compile(text)
	if pn != nil {
		r.Report(harness.Violation{Kind: "panic", Signature: "compile-panic:" + pn.Site + ":" + pn.Class,
			Input: map[string]interface{}{"expression": shorten(text, 200), "expression_quoted": fmt.Sprintf("%q", shorten(text, 200))}, Expected: "Compile returns a value or an error", Observed: pn.Error(), Site: pn.Site,
			GoTest: fmt.Sprintf("func TestReplay(t *testing.T) {\n\tjmespath.Compile(%q) // must not panic\n}", shorten(text, 400))})
		return false, 0
	}
	if cerr != nil || jp == nil {
		return false, 0
	}
	for _, d := range docs {
		_, _, spn := impl.Search(jp, model.Copy(d))
		searches++
		if spn != nil {
			r.Report(harness.Violation{Kind: "panic", Signature: "search-panic:" + spn.Site + ":" + spn.Class,
				Input: map[string]interface{}{"expression": shorten(text, 200), "expression_quoted": fmt.Sprintf("%q", shorten(text, 200)), "document": d}, Expected: "Search returns a value or an error", Observed: spn.Error(), Site: spn.Site,
				GoTest: goTest(shorten(text, 400), d, "a value or an error, not a panic")})
			break
		}
	}
	return true, searches
}

func checkC05(r *harness.Run) harness.Coverage {
	r.Rule = "(1) every string of up to n symbols over a 50-symbol alphabet with one member per lexer character class and class boundary (incl. NUL, DEL, U+0080, U+0081, U+00FF, U+07FF, U+0800, U+FFFF, U+10000, U+10FFFF and invalid UTF-8 bytes); (2) the pumping family u^k v w^k up to 64 KiB; (3) every sentence of the function / projection / core universes plus hostile leaves (extreme integers, empty quoted identifier, non-ASCII and invalid-UTF-8 raw strings), plus sentences with expression references in every operand position, x 30 documents of every JSON type. Oracle: Compile and Search return (recover() per case, watchdog per case). Non-trivial = the string compiles, or is rejected after the first symbol; distinct by string"
	r.Assumptions = []string{"exhaustive for the stated alphabet and length only; longer inputs are represented by the pumping family", "termination is judged twice: a per-case watchdog of 120 s (legitimate cases take microseconds) on the code as shipped, and a deterministic statement budget plus growth-rate bound on the instrumented build over the pumped families"}
	n := 3
	if r.Thorough() {
		n = 4
	}
	if r.Thorough() && r.Deadline.IsZero() {
		n = 5
	}
	// deterministic termination / complexity pass (instrumented build, run by ./check before this driver)
	var stepCalls, statements int64
	if data, err := os.ReadFile(harness.Root + "/bin/c05-steps.json"); err == nil {
		var side struct {
			Counters   map[string]int64       `json:"counters"`
			Notes      map[string]interface{} `json:"notes"`
			Violations []harness.Violation    `json:"violations"`
			Samples    []interface{}          `json:"samples"`
		}
		if json.Unmarshal(data, &side) == nil {
			stepCalls, statements = side.Counters["step_counted_calls"], side.Counters["statements"]
			for _, v := range side.Violations {
				r.Report(v)
			}
			for _, sm := range side.Samples {
				r.Sample(sm)
			}
			r.Note("step_pass", fmt.Sprintf("%v pumped families x k in {8,16,32,64,128}: %d calls, %d statements counted on the instrumented build; budget %v statements per call; growth must stay below 3x per doubling", side.Notes["pumped_families"], stepCalls, statements, side.Notes["statement_budget"]))
		}
		r.Note("map_order_pass", fmt.Sprintf("%d (expression, document) pairs with object-member iteration explored over every sequence of map-iteration orders on the instrumented build (deviation bound %v, unbounded for calls with few requests): %d executions, none may panic", side.Counters["maporder_pairs"], side.Notes["maporder_deviation_bound"], side.Counters["maporder_executions"]))
		os.Remove(harness.Root + "/bin/c05-steps.json")
	} else {
		r.Note("step_pass", "not run (instrumented pass result missing)")
	}
	syms := univ.ByteSymbols
	w := newWatch(r, 120*time.Second)
	defer w.close()
	var strs, compiled, searches, nontriv int64
	smallDocs := hostileDocs[:8]
	doneN := 0
	for k := 0; k <= n; k++ {
		if r.OverBudget() {
			break
		}
		total := pow(len(syms), k)
		harness.Parallel(total, func(wk, i int) {
			var b strings.Builder
			x := i
			for j := 0; j < k; j++ {
				b.WriteString(syms[x%len(syms)])
				x /= len(syms)
			}
			text := b.String()
			w.begin(wk, fmt.Sprintf("B(%d) %q", k, text))
			ok, s := tryExpr(r, text, smallDocs, "")
			w.end(wk)
			atomic.AddInt64(&strs, 1)
			atomic.AddInt64(&searches, s)
			if ok {
				atomic.AddInt64(&compiled, 1)
				atomic.AddInt64(&nontriv, 1)
			}
		})
		doneN = k
	}
	// (2) pumping
	var pumped int64
	ks := []int{1, 2, 3, 17}
	if r.Thorough() {
		ks = []int{1, 2, 3, 64, 1000}
	}
	units := univ.PumpUnits
	total := len(units) * len(units) * len(syms)
	harness.Parallel(total, func(wk, i int) {
		u := units[i%len(units)]
		wv := units[(i/len(units))%len(units)]
		v := syms[i/(len(units)*len(units))]
		for _, k := range ks {
			text := strings.Repeat(u, k) + v + strings.Repeat(wv, k)
			w.begin(wk, fmt.Sprintf("pump u=%q v=%q w=%q k=%d", u, v, wv, k))
			ok, s := tryExpr(r, text, smallDocs[:4], "")
			w.end(wk)
			atomic.AddInt64(&pumped, 1)
			atomic.AddInt64(&searches, s)
			if ok {
				atomic.AddInt64(&compiled, 1)
				atomic.AddInt64(&nontriv, 1)
			}
		}
	})
	type pj struct {
		u, v, w string
		k       int
	}
	var jobs []pj
	for _, p := range univ.PumpPairs {
		for _, v := range append([]string{"", "a", "`1`", "@", "*"}, syms[:6]...) {
			unit := len(p[0]) + len(p[1])
			for _, k := range []int{255, 256, 257, 511, 512, 513, 1000, 1023, 1024, 1025, 4095, 4096, 4097, 65536 / unit, 65535/unit + 1} {
				jobs = append(jobs, pj{p[0], v, p[1], k})
			}
		}
	}
	harness.Parallel(len(jobs), func(wk, i int) {
		j := jobs[i]
		text := strings.Repeat(j.u, j.k) + j.v + strings.Repeat(j.w, j.k)
		w.begin(wk, fmt.Sprintf("pump u=%q v=%q w=%q k=%d", j.u, j.v, j.w, j.k))
		ok, s := tryExpr(r, text, smallDocs[:3], "")
		w.end(wk)
		atomic.AddInt64(&pumped, 1)
		atomic.AddInt64(&searches, s)
		if ok {
			atomic.AddInt64(&compiled, 1)
			atomic.AddInt64(&nontriv, 1)
		}
	})
	// (3) grammar-generated sentences with hostile leaves x documents of every type
	hostile := univ.FuncFragment(append(model.FunctionNames(), "nosuch", "zzz", "a_"))
	hostile.Leaves = append(hostile.Leaves, univ.Tks("`9223372036854775807`", "`-1e999`", "'\xff\xfe'", "'é😀'", "`\"\\ud800\"`", "`[[[[[[1]]]]]]`")...)
	hostile.Idents = append(hostile.Idents, univ.Tks(`""`, `"\u0000"`)...)
	hostile.Idents = append(hostile.Idents, model.T(model.QID, "\"\xff\xff\xff\xff\""), model.T(model.QID, "\"\xc3\xc3\xc3\""))
	hostile.Nums = append(hostile.Nums, univ.Tks("9223372036854775807", "-9223372036854775808", "99999999999999999999", "-0")...)
	hostile.Slices = [][]model.Tok{univ.Tks(":", ":", "9223372036854775807"), univ.Tks("-9223372036854775808", ":"), univ.Tks(":", ":", "-9223372036854775808"), univ.Tks(":", "99999999999999999999"),
		univ.Tks("1", ":", ":", "9223372036854775807"), univ.Tks("1", ":", "5", ":", "9223372036854775807"), univ.Tks("-1", ":", ":", "-9223372036854775807")}
	hostile.Filter, hostile.Star, hostile.Or, hostile.Not = true, true, true, true
	hw := 4
	// expression references in arbitrary operand positions (gap G1: no verdict on the value, but no panic either)
	anyRef := &univ.Fragment{
		Idents: univ.Tks("a"), Leaves: univ.Tks("@", "`1`"), Nums: univ.Tks("0"),
		Funcs: univ.Tks("contains", "not_null", "to_array", "type", "to_string", "sort_by", "map", "length", "merge", "max_by", "join", "keys"),
		Cmps:  univ.Tks("==", "<"), Or: true, And: true, Not: true, Dot: true, Pipe: true, Flatten: true, WildIdx: true, Filter: true, Star: true,
		FilterConds: [][]model.Tok{univ.Lx("&a"), univ.Lx("&a == &a"), univ.Lx("@")},
		MaxList:     2, MaxHash: 1, MaxArgs: 2, MinArgs: 1, AmpAnywhere: true, Weight: univ.StructuralWeight,
	}
	// the same with a tiny alphabet, deeper: parenthesised references compared, nested in lists and calls
	anyRefDeep := &univ.Fragment{
		Idents: univ.Tks("a"), Leaves: univ.Tks("@"), Funcs: univ.Tks("contains", "sort_by"),
		Cmps: univ.Tks("=="), Or: true, Not: true, Paren: true, Pipe: true, WildIdx: true,
		MaxList: 2, MaxArgs: 2, MinArgs: 2, AmpAnywhere: true, Weight: univ.StructuralWeight,
	}
	// a reference used as a VALUE by every navigation construct: (&a).*, (&a)[0], (&a)[], (&a)[?@], (&a)[::1], (&a).a, [&a][*].*, {x: &a}.*.*
	anyRefNav := &univ.Fragment{
		Idents: univ.Tks("a"), Leaves: univ.Tks("@"), Nums: univ.Tks("0"), Slices: [][]model.Tok{univ.Tks(":", ":", "1")},
		Paren: true, Dot: true, Star: true, WildIdx: true, Flatten: true, Filter: true, Pipe: true, FilterConds: [][]model.Tok{univ.Lx("@")},
		MaxList: 2, MaxHash: 1, AmpAnywhere: true, Weight: univ.StructuralWeight,
	}
	var gen int64
	for _, part := range []struct {
		f    *univ.Fragment
		maxW int
	}{{hostile, hw}, {univ.ProjFragment(), 4}, {univ.CoreFragment(), 4}, {univ.ErrFragment(errCompounds), 4}, {anyRef, 5}, {anyRefDeep, 7}, {anyRefNav, 6}} {
		g := univ.NewGen(part.f)
		for wt := 1; wt <= part.maxW; wt++ {
			ss := g.Sentences(wt)
			harness.Parallel(len(ss), func(wk, i int) {
				text := model.Spell(g.Tokens(ss[i]), model.Tight)
				w.begin(wk, "generated "+text)
				ok, s := tryExpr(r, text, hostileDocs, "")
				w.end(wk)
				atomic.AddInt64(&gen, 1)
				atomic.AddInt64(&searches, s)
				if ok {
					atomic.AddInt64(&compiled, 1)
					atomic.AddInt64(&nontriv, 1)
				}
			})
		}
	}
	// calls with many arguments (fixed-size argument buffers), every built-in and an unknown name
	var manyArgs int64
	for _, fn := range append(model.FunctionNames(), "nosuch", "zzz", "a_") {
		for _, n := range []int{7, 8, 9, 10, 16, 17, 33, 64, 65, 256} {
			for _, arg := range []string{"a", "`1`", "&a", "@"} {
				text := fn + "(" + strings.TrimSuffix(strings.Repeat(arg+", ", n), ", ") + ")"
				_, s := tryExpr(r, text, hostileDocs[:12], "")
				manyArgs++
				searches += s
			}
		}
	}
	// every nesting f(g(x)) and f(g(x), y) of two built-ins (a value that went through two functions in a row:
	// sum of huge numbers -> to_string, to_number of a malformed numeral -> abs, ...) over documents with extreme
	// numbers and over string documents that look like numbers, JSON texts or neither
	extremeDocs := append(univ.Js(`[1e308, 1e308]`, `{"a":[1e308,1e308,-1e308],"b":1e308}`, `{"a":[-1e308,-1e308],"b":-1e-320}`, `[5e-324, 0, -0.0]`, `{"a":[9007199254740993, 1e21],"b":"1e999"}`,
		`{"a":["1e", "0E", "-3.5e", "1e+", "1.", "-", "e5", "", " 1", "1 ", "0x10", "1_0", "null", "Infinity", "NaN", "١"],"b":"1e"}`, `"1e"`, `"12.25E"`, `"-"`, `"+"`, `"."`, `"1e400"`, `"-1e400"`, `"nan"`, `"0x1p-2"`, `"null"`),
		hostileDocs[:6]...)
	var nested int64
	fnames := model.FunctionNames()
	var nestTexts []string
	for _, f := range fnames {
		for _, g := range fnames {
			for _, x := range []string{"@", "a", "b"} {
				nestTexts = append(nestTexts, f+"("+g+"("+x+"))", f+"("+g+"("+x+"), "+x+")", f+"("+x+", "+g+"("+x+"))", f+"(&"+g+"(@), "+x+")", f+"("+x+", &"+g+"(@))", f+"(["+g+"("+x+")])", f+"("+g+"("+x+")[0])", f+"("+x+"[*]."+g+"(@))", f+"({k: "+g+"("+x+")})")
			}
		}
	}
	harness.Parallel(len(nestTexts), func(wk, i int) {
		w.begin(wk, "nested calls "+nestTexts[i])
		_, sn := tryExpr(r, nestTexts[i], extremeDocs, "")
		w.end(wk)
		atomic.AddInt64(&nested, 1)
		atomic.AddInt64(&searches, sn)
	})
	r.Note("nested_call_pairs", nested)
	r.Note("many_argument_calls", manyArgs)
	r.Evaluations = strs + pumped + gen + searches + stepCalls + manyArgs + nested
	r.Traces = strs + pumped + gen
	r.States = strs + pumped + gen
	r.Transitions = strs + pumped + gen + searches
	r.Nontrivial = nontriv
	r.Note("byte_strings", strs)
	r.Note("pumped_strings", pumped)
	r.Note("generated_sentences", gen)
	r.Note("compiled", compiled)
	r.Note("searches", searches)
	r.Sample(map[string]interface{}{"expression_quoted": fmt.Sprintf("%q", "a\u0080"), "kind": "B(2): letter followed by U+0080"})
	r.Sample(map[string]interface{}{"expression": "((((…a…))))", "kind": "pumping u=( v=a w=) k=32768"})
	r.Sample(map[string]interface{}{"expression": "[::9223372036854775807]", "document": "[1,2,3]", "kind": "generated, hostile leaf"})
	return harness.Coverage{Exhaustive: doneN == n, Bounds: map[string]interface{}{"byte_symbols": doneN, "alphabet": len(syms), "pump_k": ks, "pump_max_bytes": 65536, "hostile_weight": hw}, Outcomes: 2}
}
