package main

import (
	"fmt"
	"strconv"
	"strings"

	"verif/harness"
	"verif/impl"
	"verif/model"
	"verif/univ"
)

func init() { register("C08", checkC08) }

func sliceText(parts [3]*int64, shortForm bool) string {
	p := func(x *int64) string {
		if x == nil {
			return ""
		}
		return strconv.FormatInt(*x, 10)
	}
	if shortForm && parts[2] == nil {
		return "[" + p(parts[0]) + ":" + p(parts[1]) + "]"
	}
	return "[" + p(parts[0]) + ":" + p(parts[1]) + ":" + p(parts[2]) + "]"
}

func checkC08(r *harness.Run) harness.Coverage {
	r.Rule = "array lengths 0..L x (start, stop, step) in ({absent} U [-L-3, L+3])^3, plus boundary values {+-1,+-2,+-2^31,+-(2^63-1),-2^63} in each position crossed with a small window in the others; as [a:b:c] on the array, as x[a:b:c] on {\"x\": array}, on a typed []string twin (reflection path), on non-array subjects of every JSON type; 20-digit numerals (gap G2: error or Python semantics, never a panic). Oracle: CPython slice arithmetic (model.SliceIndices). Non-trivial = reference outcome non-null (incl. non-empty selection) or error; distinct by (expression, document)"
	r.Assumptions = []string{"reference: CPython PySlice_AdjustIndices transcription in model/eval.go", "lengths bounded by L; magnitudes covered by the boundary set"}
	L := 12
	if r.Thorough() {
		L = 24
	}
	var vals []*int64
	vals = append(vals, nil)
	for v := int64(-L - 3); v <= int64(L+3); v++ {
		x := v
		vals = append(vals, &x)
	}
	var exprs []exprCase
	seen := map[string]bool{}
	add := func(parts [3]*int64) {
		for _, short := range []bool{false, true} {
			t := sliceText(parts, short)
			if !seen[t] {
				seen[t] = true
				exprs = append(exprs, exprFromText(t), exprFromText("x"+t))
			}
		}
	}
	for _, a := range vals {
		for _, b := range vals {
			for _, c := range vals {
				add([3]*int64{a, b, c})
			}
		}
	}
	// boundary values crossed with a small window
	var bounds []*int64
	for _, v := range []int64{1 << 31, -(1 << 31), 1<<31 - 1, 1<<63 - 1, -(1<<63 - 1), -1 << 63, 1<<63 - 2, -(1 << 62), 1 << 62} {
		x := v
		bounds = append(bounds, &x)
	}
	var small []*int64
	small = append(small, nil)
	for _, v := range []int64{-3, -2, -1, 0, 1, 2, 3} {
		x := v
		small = append(small, &x)
	}
	for _, big := range bounds {
		for _, s1 := range small {
			for _, s2 := range small {
				add([3]*int64{big, s1, s2})
				add([3]*int64{s1, big, s2})
				add([3]*int64{s1, s2, big})
			}
		}
		for _, big2 := range bounds {
			for _, s := range small {
				add([3]*int64{big, big2, s})
				add([3]*int64{big, s, big2})
				add([3]*int64{s, big, big2})
			}
			for _, big3 := range bounds {
				add([3]*int64{big, big2, big3})
			}
		}
	}
	// boundary slices followed by a field, an index or a pipe (fused fast paths must clamp too)
	for _, big := range bounds {
		for _, s1 := range small {
			for _, parts := range [][3]*int64{{s1, nil, big}, {big, s1, nil}, {s1, big, nil}, {s1, nil, nil}, {nil, s1, big}} {
				t := sliceText(parts, false)
				exprs = append(exprs, exprFromText("y"+t+".a"), exprFromText("y"+t+"[0]"), exprFromText("y"+t+" | [0]"), exprFromText("y"+t+".a | [0]"))
			}
		}
	}
	// numerals with leading zeros are decimal (grammar: number = ["-"] 1*digit)
	for _, t := range []string{"[010:]", "[:010]", "[::010]", "[08:]", "[-010:]", "[1:011]", "[::-01]", "[009:010:001]", "[0:00012]"} {
		exprs = append(exprs, exprFromText(t), exprFromText("x"+t))
	}
	exprs = append(exprs, exprFromText("[010]"), exprFromText("x[011]"), exprFromText("[-012]"))
	// two different slices in one expression (per-interpreter scratch state must not carry over)
	forms := []string{"[:]", "[1:]", "[:1]", "[::2]", "[::-1]", "[1:3]", "[-2:]", "[:-1]", "[2::-1]", "[::1]", "[3:1:-1]", "[1::2]"}
	for _, s1 := range forms {
		for _, s2 := range forms {
			exprs = append(exprs, exprFromText(s1+" | "+s2), exprFromText("x"+s1+" | "+s2), exprFromText("["+s1+", "+s2+"]"), exprFromText("x"+s1+s2))
		}
	}
	var docs []interface{}
	for n := 0; n <= L; n++ {
		arr := make([]interface{}, n)
		for i := range arr {
			arr[i] = float64(i)
		}
		docs = append(docs, arr, map[string]interface{}{"x": arr})
	}
	docs = append(docs, univ.Js(`[0,1,2,3,4,5,6,7,8,9,10,11,12]`, `{"x":[0,1,2,3,4,5,6,7,8,9,10,11,12]}`)...)
	docs = append(docs, univ.Js(`{"y":[{"a":0},{"a":1},{"a":2}]}`, `{"y":[{"a":[0]},{"a":[1]},{"a":[2]},{"a":[3]},{"a":[4]}]}`)...)
	docs = append(docs, univ.Js(`[[0,1,2],[3,4],[5]]`, `{"x":[[0,1,2],[3,4],[5]]}`)...)
	docs = append(docs, univ.Js(`null`, `true`, `3`, `"abcdef"`, `{}`, `{"x":"abc"}`, `{"x":{"a":[1,2]}}`, `{"x":null}`, `{"0":1}`)...)
	st := conform(r, exprs, docs, conformOpts{})

	// typed []string twin: the reflection path must select the same elements
	var typed, typedBad int64
	harness.Parallel(len(exprs), func(w, ei int) {
		e := &exprs[ei]
		if strings.HasPrefix(e.text, "x") {
			return
		}
		jp, cerr, pn := impl.Compile(e.text)
		if pn != nil || cerr != nil {
			return // already reported by conform
		}
		for n := 0; n <= L; n++ {
			ts := make([]string, n)
			gen := make([]interface{}, n)
			for i := range ts {
				ts[i] = strconv.Itoa(i)
				gen[i] = ts[i]
			}
			outs := model.Outcomes(e.ast, gen, nil)
			res, serr, pn := impl.Search(jp, ts)
			ok := false
			if pn == nil {
				if serr != nil {
					ok = outs[0].Err == model.ErrEval
				} else {
					ok = outs[0].Err == nil && model.Match(res, outs[0].Val)
				}
			}
			harness.AtomicAdd(&typed, 1)
			if !ok {
				harness.AtomicAdd(&typedBad, 1)
				obs := model.Show(res)
				if pn != nil {
					obs = pn.Error()
				} else if serr != nil {
					obs = "error: " + serr.Error()
				}
				r.Report(harness.Violation{Kind: "wrong-value", Signature: typedSig(pn, e.text),
					Input:    map[string]interface{}{"expression": e.text, "document": fmt.Sprintf("[]string%q", ts)},
					Expected: outcomesDesc(outs), Observed: obs})
				return
			}
		}
	})
	// gap G2: numerals beyond the platform int must give an error or a value, never a panic
	var huge int64
	for _, num := range []string{"99999999999999999999", "-99999999999999999999", "9223372036854775808", "-9223372036854775809"} {
		for _, t := range []string{"[" + num + "::]", "[:" + num + ":]", "[::" + num + "]", "[" + num + ":" + num + ":" + num + "]", "[" + num + "]", "x[" + num + ":]", "[1:" + num + ":2]"} {
			jp, cerr, pn := impl.Compile(t)
			huge++
			if pn != nil {
				r.Report(harness.Violation{Kind: "panic", Signature: "huge-numeral-panic:" + pn.Site, Input: map[string]interface{}{"expression": t}, Expected: "error or value", Observed: pn.Error(), Site: pn.Site})
				continue
			}
			if cerr != nil {
				continue
			}
			for _, d := range docs {
				if _, _, pn := impl.Search(jp, model.Copy(d)); pn != nil {
					r.Report(harness.Violation{Kind: "panic", Signature: "huge-numeral-panic:" + pn.Site, Input: map[string]interface{}{"expression": t, "document": d}, Expected: "error or value", Observed: pn.Error(), Site: pn.Site})
					break
				}
			}
		}
	}
	finishConform(r, st, len(exprs), len(docs))
	r.Evaluations += typed + huge
	r.Traces += typed
	r.Note("typed_slice_evaluations", typed)
	r.Note("huge_numeral_expressions", huge)
	sampleExprs(r, exprs, docs[:2*L])
	return harness.Coverage{Exhaustive: true, Bounds: map[string]interface{}{"max_length": L, "window": fmt.Sprintf("[-%d,%d] U absent", L+3, L+3), "boundary_values": len(bounds)}, Outcomes: distinctOutcomes(st)}
}

func typedSig(pn *impl.Panic, text string) string {
	if pn != nil {
		return "search-panic:" + pn.Site + ":" + pn.Class
	}
	return "typed-slice:" + text
}
