package main

import (
	"fmt"
	"sync/atomic"

	"verif/harness"
	"verif/impl"
	"verif/model"
	"verif/univ"
)

// exprCase is one sentence with its canonical (model) parse.
type exprCase struct {
	toks []model.Tok
	text string
	ast  *model.Node
}

// buildExprs parses generated sentences with P; a sentence P rejects would be a
// generator/model inconsistency (tooling error), except gap G2 (big numerals).
func buildExprs(g *univ.Gen, maxW int, keep func(toks []model.Tok, ast *model.Node) bool) []exprCase {
	var out []exprCase
	for w := 1; w <= maxW; w++ {
		for _, s := range g.Sentences(w) {
			toks := g.Tokens(s)
			ast, strict, err := model.Parse(toks)
			if err != nil || !strict {
				harness.Fatal("model inconsistency: generated sentence %q rejected by P: %v", model.Spell(toks, model.Spaced), err)
			}
			if keep != nil && !keep(toks, ast) {
				continue
			}
			out = append(out, exprCase{toks, model.Spell(toks, model.Tight), ast})
		}
	}
	return out
}

// conformGen is buildExprs + conform in bounded memory: the sentences of each weight are parsed and replayed
// in chunks, nothing but the statistics (and a handful of sample expressions) outlives a chunk.
func conformGen(r *harness.Run, g *univ.Gen, maxW int, keep func(toks []model.Tok, ast *model.Node) bool, docs []interface{}, opts conformOpts) (conformStats, int, []exprCase) {
	const chunk = 200000
	var total conformStats
	n := 0
	var samples []exprCase
	for w := 1; w <= maxW; w++ {
		if w < opts.minW {
			continue
		}
		ss := g.Sentences(w)
		for lo := 0; lo < len(ss); lo += chunk {
			hi := lo + chunk
			if hi > len(ss) {
				hi = len(ss)
			}
			part := make([]exprCase, 0, hi-lo)
			for _, s := range ss[lo:hi] {
				toks := g.Tokens(s)
				ast, strict, err := model.Parse(toks)
				if err != nil || !strict {
					harness.Fatal("model inconsistency: generated sentence %q rejected by P: %v", model.Spell(toks, model.Spaced), err)
				}
				if keep != nil && !keep(toks, ast) {
					continue
				}
				part = append(part, exprCase{toks, model.Spell(toks, model.Tight), ast})
			}
			if len(part) == 0 {
				continue
			}
			total.add(conform(r, part, docs, opts))
			n += len(part)
			if w == maxW && len(samples) < 4 {
				samples = append(samples, part[0], part[len(part)/2], part[len(part)-1])
			}
		}
	}
	return total, n, samples
}

func exprFromText(text string) exprCase {
	toks, err := model.Lex(text)
	if err != nil {
		harness.Fatal("model lexer rejects fixed expression %q: %v", text, err)
	}
	ast, _, err := model.Parse(toks)
	if err != nil {
		harness.Fatal("model parser rejects fixed expression %q: %v", text, err)
	}
	return exprCase{toks, text, ast}
}

type conformOpts struct {
	keepAliases bool                                                                  // hand the documents to the implementation as they are (their internal aliasing is the point); no private copies
	minW        int                                                                   // conformGen: first weight to enumerate (0 = from 1)
	skipValue   bool                                                                  // only panics / mutation are judged (used by other properties reusing the universe)
	onResult    func(w int, e *exprCase, doc interface{}, res interface{}, err error) // extra oracle on successful impl results
	onPair      func(w int, e *exprCase, di int, outs []model.Outcome, res interface{}, err error, pn *impl.Panic)
}

type conformStats struct {
	pairs, nontrivial, steps, gaps, errors, nulls, values, mismatches, mutated int64
}

func outcomesDesc(outs []model.Outcome) string {
	s := ""
	for i, o := range outs {
		if i > 0 {
			s += " | "
		}
		switch o.Err {
		case nil:
			s += model.Canon(o.Val)
		case model.ErrGap:
			s += "<no verdict>"
		default:
			s += "<error>"
		}
	}
	return s
}

func goTest(expr string, doc interface{}, want string) string {
	return fmt.Sprintf("func TestReplay(t *testing.T) {\n\tvar doc interface{}\n\tjson.Unmarshal([]byte(%q), &doc)\n\tgot, err := jmespath.Search(%q, doc)\n\tt.Logf(\"got=%%#v err=%%v; specification: %s\", got, err)\n}",
		model.Canon(doc), expr, want)
}

// conform replays every (expression, document) pair of the universe through the
// model and through the real Compile/Search and compares.
func conform(r *harness.Run, exprs []exprCase, docs []interface{}, opts conformOpts) conformStats {
	nw := harness.Workers()
	// private document copies per worker (C06 is not assumed)
	priv := make([][]interface{}, nw)
	for w := range priv {
		priv[w] = make([]interface{}, len(docs))
		for i, d := range docs {
			if opts.keepAliases {
				priv[w][i] = d
			} else {
				priv[w][i] = model.Copy(d)
			}
		}
	}
	stats := make([]conformStats, nw)
	var stop int32
	harness.Parallel(len(exprs), func(w, ei int) {
		if atomic.LoadInt32(&stop) != 0 {
			return
		}
		if ei%256 == 0 && r.OverBudget() {
			atomic.StoreInt32(&stop, 1)
			return
		}
		e := &exprs[ei]
		st := &stats[w]
		jp, cerr, pn := impl.Compile(e.text)
		if pn != nil {
			r.Report(harness.Violation{Kind: "panic", Signature: "compile-panic:" + pn.Site + ":" + pn.Class,
				Input: map[string]interface{}{"expression": e.text}, Expected: "Compile returns", Observed: pn.Error(), Site: pn.Site})
			return
		}
		if cerr != nil {
			r.Report(harness.Violation{Kind: "rejected-grammatical", Signature: "compile-error:" + e.text,
				Input: map[string]interface{}{"expression": e.text}, Expected: "grammatical expression compiles", Observed: cerr.Error()})
			return
		}
		reported := false
		for di := range docs {
			outs := model.Outcomes(e.ast, docs[di], &st.steps)
			res, serr, pn := impl.Search(jp, priv[w][di])
			st.pairs++
			if opts.onPair != nil {
				opts.onPair(w, e, di, outs, res, serr, pn)
			}
			// keep the private copy pristine (mutation itself is C06's business)
			if !opts.keepAliases && !model.DeepEqual(priv[w][di], docs[di]) {
				st.mutated++
				priv[w][di] = model.Copy(docs[di])
			}
			if pn != nil {
				if !reported {
					reported = true
					r.Report(harness.Violation{Kind: "panic", Signature: "search-panic:" + pn.Site + ":" + pn.Class,
						Input:    map[string]interface{}{"expression": e.text, "document": docs[di]},
						Expected: "Search returns " + outcomesDesc(outs), Observed: pn.Error(), Site: pn.Site,
						GoTest: goTest(e.text, docs[di], outcomesDesc(outs))})
				}
				continue
			}
			allGap, anyErr, nontriv := true, false, false
			for _, o := range outs {
				if o.Err != model.ErrGap {
					allGap = false
				}
				if o.Err == model.ErrEval {
					anyErr = true
					nontriv = true
				}
				if o.Err == nil && o.Val != nil {
					nontriv = true
				}
			}
			if allGap {
				st.gaps++
				continue
			}
			if nontriv {
				st.nontrivial++
			}
			if serr == nil && opts.onResult != nil {
				opts.onResult(w, e, docs[di], res, serr)
			}
			if opts.skipValue {
				continue
			}
			ok := false
			if serr != nil {
				st.errors++
				ok = anyErr
			} else {
				if res == nil {
					st.nulls++
				} else {
					st.values++
				}
				for _, o := range outs {
					if o.Err == model.ErrGap || (o.Err == nil && model.Match(res, o.Val)) {
						ok = true
						break
					}
				}
			}
			if !ok {
				st.mismatches++
				if !reported {
					reported = true
					kind, obs := "wrong-value", model.Show(res)
					if serr != nil {
						kind, obs = "spurious-error", "error: "+serr.Error()
					} else if anyErr && len(outs) == 1 {
						kind = "missing-error"
					}
					sig := kind + ":" + e.text
					if dotStarExplains(e.toks, e.ast, docs[di], res, serr) {
						sig = "dotstar-scope:" + e.text
					}
					r.Report(harness.Violation{Kind: kind, Signature: sig,
						Input:    map[string]interface{}{"expression": e.text, "document": docs[di]},
						Expected: outcomesDesc(outs), Observed: obs,
						GoTest: goTest(e.text, docs[di], outcomesDesc(outs))})
				}
			}
		}
	})
	var total conformStats
	for _, s := range stats {
		total.pairs += s.pairs
		total.nontrivial += s.nontrivial
		total.steps += s.steps
		total.gaps += s.gaps
		total.errors += s.errors
		total.nulls += s.nulls
		total.values += s.values
		total.mismatches += s.mismatches
		total.mutated += s.mutated
	}
	return total
}

func (a *conformStats) add(b conformStats) {
	a.pairs += b.pairs
	a.nontrivial += b.nontrivial
	a.steps += b.steps
	a.gaps += b.gaps
	a.errors += b.errors
	a.nulls += b.nulls
	a.values += b.values
	a.mismatches += b.mismatches
	a.mutated += b.mutated
}

// finishConform fills the run's counters from conformance statistics.
func finishConform(r *harness.Run, st conformStats, exprs, docs int) {
	r.Evaluations = st.pairs
	r.Traces = st.pairs
	r.States = st.pairs
	r.Transitions = st.steps
	r.Nontrivial = st.nontrivial
	r.GapCases = st.gaps
	r.Note("expressions", exprs)
	r.Note("documents", docs)
	r.Note("impl_outcomes", map[string]int64{"error": st.errors, "null": st.nulls, "non_null_value": st.values})
	r.Note("value_mismatches", st.mismatches)
	if st.mutated > 0 {
		r.Note("documents_mutated_during_run", st.mutated)
	}
}

func distinctOutcomes(st conformStats) int64 {
	var n int64
	for _, c := range []int64{st.errors, st.nulls, st.values} {
		if c > 0 {
			n++
		}
	}
	return n
}

func sampleExprs(r *harness.Run, exprs []exprCase, docs []interface{}) {
	if len(exprs) == 0 || len(docs) == 0 {
		return
	}
	for _, k := range []int{0, len(exprs) / 3, 2 * len(exprs) / 3, len(exprs) - 1} {
		e := exprs[k]
		d := docs[(k*7919)%len(docs)]
		r.Sample(map[string]interface{}{"expression": e.text, "document": d, "model_outcomes": outcomesDesc(model.Outcomes(e.ast, d, nil)), "model_ast": model.Render(e.ast)})
	}
}

// dotStarExplains reports whether a mismatch is exactly the known irregularity of
// "X.*" (right-hand side parsed with the dot's binding power, known finding in
// DESIGN 10.3): the expression contains ".*", the de-facto grouping differs from
// the canonical one, and the implementation's outcome is admitted by the
// de-facto grouping. Such mismatches get the cause signature "dotstar-scope:…";
// every other mismatch keeps its own signature.
func dotStarExplains(toks []model.Tok, canonical *model.Node, doc interface{}, res interface{}, serr error) bool {
	has := false
	for i := 0; i+1 < len(toks); i++ {
		if toks[i].Kind == model.DOT && toks[i+1].Kind == model.STAR {
			has = true
		}
	}
	if !has {
		return false
	}
	alt, _, err := model.ParseDeFacto(toks)
	if err != nil || model.Render(alt) == model.Render(canonical) {
		return false
	}
	for _, o := range model.Outcomes(alt, doc, nil) {
		if o.Err == model.ErrGap {
			return true
		}
		if serr != nil && o.Err == model.ErrEval {
			return true
		}
		if serr == nil && o.Err == nil && model.Match(res, o.Val) {
			return true
		}
	}
	return false
}
