package main

import (
	"strings"

	"verif/harness"
	"verif/model"
	"verif/univ"
)

func init() { register("C01", checkC01) }

// collisionDocs: documents chosen to collide with the fragment's names and indices.
var collisionDocs = univ.Js(
	`{"a":{"a":{"a":1,"b":2},"b":[1,2,3]},"b":[{"a":1,"b":[0]},{"a":2},[3,4]],"":{"":"e","a":5}}`,
	`[[1,2,3],[4,5],[6],[]]`, `[{"a":1},{"a":2},{"b":3}]`, `[1,2,3]`, `[1,2]`, `[1]`, `[[[1]]]`,
	`{"a":[1,2,3],"b":{"a":[4,5]}}`, `{"a":"a","b":null}`, `{"a":null}`, `{"a":false,"b":true}`, `{"a":0,"b":""}`,
	`{"":1}`, `{"":{"":2}}`, `{"a":{"":[7,8]}}`, `"a"`, `"abc"`, `""`, `0`, `-1`, `1.5`, `true`,
	`{"a":{"b":{"a":{"b":1}}}}`, `[null,null]`, `[null,1]`, `[[null]]`, `{"b":[[1,2],[3,4]]}`, `{"a":[{"b":[1,2]},{"b":[3]}]}`,
	`[{"a":[1,2]},{"a":[3,4]}]`, `{"a":{"a":{"a":{"a":1}}}}`, `[[],[[]],[[[]]]]`, `[{}, {"a":{}}]`, `{"a":[], "b":{}}`,
	`[1,"a",null,false,[],{}]`, `{"a":[1,"a",null,false,[],{}]}`, `{"A":1,"a":2}`, `{"A":1,"B":[1,2]}`, `[{"A":{"A":1}},{"B":2}]`, `{"A":{"B":{"A":1}},"b":3}`, `{"a b":1}`, `[0,1,2,3,4,5,6,7,8,9]`, `{"a":"1","b":1}`, `{"b":{"a":1}}`,
	// strings whose characters spell JSON (a document is data, never text to be decoded)
	`"[1, 2]"`, `"{\"a\": {\"b\": 1}}"`, `"1"`, `"null"`, `"true"`, `"\"a\""`, `{"a":"[1,2]","b":"{\"a\":1}"}`, `["[0]", "{}"]`,
)

func checkC01(r *harness.Run) harness.Coverage {
	r.Rule = "all sentences of the core fragment (fields a, b, \"\"; @; literals of the six JSON types; raw string; sub-expression; indices 0,1,2,-1,-2,-3; parentheses; pipe; multi-select lists and hashes) up to the structural weight bound, each against every document of the value universe; reference outcome from the model evaluator E; non-trivial = the reference outcome is a non-null value or an error; distinct by (expression, document)"
	r.Assumptions = []string{"reference semantics: model/eval.go (grounded on the 862 compliance cases)", "bounded: expressions up to the weight bound, documents V(d,2,A6,{a,b,\"\"}) plus 40 collision documents"}
	maxW, depth := 5, 1
	if r.Thorough() {
		maxW, depth = 6, 2
	}
	g := univ.NewGen(univ.CoreFragment())
	var exprs []exprCase
	keys := []string{"a", "b", ""}
	if depth == 2 {
		keys = []string{"a", "b"}
	}
	docs := univ.Values(depth, 2, univ.Js(univ.A6...), keys)
	if depth == 2 {
		docs = append(docs, univ.Values(1, 2, univ.Js(univ.A6...), []string{"a", "b", ""})...)
	}
	docs = append(docs, collisionDocs...)
	st, nGen, samp := conformGen(r, g, maxW, nil, docs, conformOpts{})
	// nested multi-select family: every tree of lists (1-3 members) and hashes (1-2 members) over the leaves
	// a, b, c up to depth 3 with at most 3 (thorough: 4) leaves, e.g. [[a],[b,[c]]] - far beyond the weight
	// bound of the sentence enumeration, but the place where a parser that builds member lists shows
	// state carried from one list to the next
	maxLeaves := 3
	if r.Thorough() {
		maxLeaves = 4
	}
	var nested []exprCase
	for n := 1; n <= maxLeaves; n++ {
		for _, t := range msTrees(n, 3) {
			nested = append(nested, exprFromText(t))
		}
	}
	nestedDocs := univ.Js(`{"a":1,"b":2,"c":3}`, `{"a":[1],"b":{"c":2},"c":"c"}`, `{"a":null,"b":false,"c":[]}`, `{"b":2}`, `[1,2,3]`, `null`)
	st2 := conform(r, nested, nestedDocs, conformOpts{})
	st.add(st2)
	// numerals are decimal whatever they look like: leading zeros (never octal), on an array long enough to tell
	var numerals []exprCase
	for _, n := range []string{"010", "-010", "08", "-09", "007", "00", "-00", "011", "0010", "-012", "012"} {
		for _, ctx := range []string{"[%s]", "a[%s]", "[%s:]", "[:%s]", "[::%s]", "[%s:%s]", "a[*][%s]", "[%s] | @", "[[%s], [1]]"} {
			text := strings.Replace(ctx, "%s", n, -1)
			if toks, err := model.Lex(text); err == nil {
				if ast, strict, perr := model.Parse(toks); perr == nil && strict {
					numerals = append(numerals, exprCase{toks, text, ast})
				}
			}
		}
	}
	st3 := conform(r, numerals, univ.Js(`[0,1,2,3,4,5,6,7,8,9,10,11,12,13]`, `{"a":[0,1,2,3,4,5,6,7,8,9,10,11,12]}`, `{"a":[[0,1,2,3,4,5,6,7,8,9,10,11],[0]]}`, `[]`), conformOpts{})
	st.add(st3)
	r.Note("leading_zero_numeral_expressions", len(numerals))
	exprs = append(exprs, numerals...)
	r.Note("nested_multiselect_trees", len(nested))
	exprs = append(exprs, nested...)
	// pumped families: one construct repeated k times, nested or in a row, inside one expression (k from a
	// fixed size list plus the integer literals of the current tree and their neighbours)
	kmax := 1100
	if r.Thorough() {
		kmax = 5000
	}
	ks := pumpKs(kmax)
	pumped := append(pumpExprs(pumpCore, ks), seqExprs(pumpCoreSeq, ks)...)
	pumpDocs := univ.Js(`{"a":{"b":1,"a":2},"b":[1,2],"c":{"c":{"c":{"c":3}}}}`, `{"a":[[1,2],[3]],"b":"x","c":1}`, `{"a":null,"b":{"b":0}}`, `{"a":false,"b":null}`, `[1,[2]]`, `null`)
	st4 := conform(r, pumped, pumpDocs, conformOpts{})
	st.add(st4)
	r.Note("pumped_expressions", len(pumped))
	r.Note("pumped_sizes", ks)
	exprs = append(exprs, pumped...)
	finishConform(r, st, nGen+len(exprs), len(docs))
	sampleExprs(r, samp, docs)
	return harness.Coverage{Exhaustive: true, Bounds: map[string]interface{}{"expression_weight": maxW, "document_depth": depth, "array_width": 2}, Outcomes: distinctOutcomes(st)}
}

// msTrees lists every multi-select tree with exactly n leaves and depth <= d: a leaf is one of the fields
// a, b, c; an inner node is a list of 1-3 subtrees or a hash (keys x, y) of 1-2 subtrees.
func msTrees(n, d int) []string {
	var out []string
	if n == 1 {
		out = append(out, "a", "b", "c")
	}
	if d == 0 {
		return out
	}
	var split func(k, n int, f func(parts []int), acc []int)
	split = func(k, n int, f func(parts []int), acc []int) {
		if k == 1 {
			f(append(append([]int{}, acc...), n))
			return
		}
		for p := 1; p <= n-(k-1); p++ {
			split(k-1, n-p, f, append(acc, p))
		}
	}
	var product func(parts []int, i int, cur []string, f func(members []string))
	product = func(parts []int, i int, cur []string, f func(members []string)) {
		if i == len(parts) {
			f(cur)
			return
		}
		for _, t := range msTrees(parts[i], d-1) {
			product(parts, i+1, append(cur, t), f)
		}
	}
	for k := 1; k <= 3 && k <= n; k++ {
		split(k, n, func(parts []int) {
			product(parts, 0, nil, func(m []string) {
				s := "["
				for i, x := range m {
					if i > 0 {
						s += ","
					}
					s += x
				}
				out = append(out, s+"]")
				if len(m) <= 2 {
					h := "{"
					for i, x := range m {
						if i > 0 {
							h += ","
						}
						h += string("xy"[i]) + ":" + x
					}
					out = append(out, h+"}")
				}
			})
		}, nil)
	}
	return out
}
