package main

import (
	"fmt"
	"strconv"
	"strings"
	"sync/atomic"

	jmespath "github.com/jmespath/go-jmespath"

	"verif/harness"
	"verif/impl"
	"verif/model"
	"verif/univ"
)

func init() { register("C17", checkC17) }

type c17Counts struct {
	cases, ok, syntaxErr, otherErr int64
}

func mustCompile(text string) (jp *jmespath.JMESPath, panicked bool, val string) {
	defer func() {
		if r := recover(); r != nil {
			panicked = true
			val = fmt.Sprint(r)
		}
	}()
	jp = jmespath.MustCompile(text)
	return
}

func parseOnly(text string) (err error) {
	defer func() {
		if r := recover(); r != nil {
			err = fmt.Errorf("panic: %v", r)
		}
	}()
	_, err = jmespath.NewParser().Parse(text)
	return
}

func c17One(r *harness.Run, text string, c *c17Counts) {
	atomic.AddInt64(&c.cases, 1)
	in := map[string]interface{}{"expression": shorten(text, 200), "expression_quoted": fmt.Sprintf("%q", shorten(text, 200))}
	bad := func(sig, exp, obs string) {
		r.Report(harness.Violation{Kind: "contract", Signature: sig, Input: in, Expected: exp, Observed: obs})
	}
	jp, err, pn := impl.Compile(text)
	if pn != nil {
		bad("compile-panic:"+pn.Site+":"+pn.Class, "Compile returns", pn.Error())
		return
	}
	if (jp == nil) == (err == nil) {
		bad("both-or-neither", "exactly one of (expression, error) is non-nil", fmt.Sprintf("expression nil=%v, error=%v", jp == nil, err))
		return
	}
	if err == nil {
		atomic.AddInt64(&c.ok, 1)
		_, serr, spn := impl.Search(jp, nil)
		if spn != nil {
			bad("unusable-expression:panic:"+spn.Site, "a returned expression is usable", "Search(nil) panics: "+spn.Error())
		} else if serr != nil && strings.Contains(serr.Error(), "Unknown AST node") {
			bad("unusable-expression:empty-ast", "a returned expression is usable", "Search(nil) fails: "+serr.Error())
		}
	} else if se, ok := err.(jmespath.SyntaxError); ok {
		atomic.AddInt64(&c.syntaxErr, 1)
		if se.Expression != text {
			bad("syntax-error-expression", "SyntaxError.Expression is the input", fmt.Sprintf("%q", shorten(se.Expression, 100)))
		}
		if se.Offset < 0 || se.Offset > len(text) {
			bad("syntax-error-offset:"+se.Error(), fmt.Sprintf("0 <= Offset <= %d", len(text)), fmt.Sprintf("Offset=%d (%s)", se.Offset, se.Error()))
		} else {
			hl, hp := func() (s string, p interface{}) {
				defer func() { p = recover() }()
				return se.HighlightLocation(), nil
			}()
			want := text + "\n" + strings.Repeat(" ", se.Offset) + "^"
			if hp != nil {
				bad("highlight-panic", "HighlightLocation returns", fmt.Sprint(hp))
			} else if hl != want {
				bad("highlight-text", fmt.Sprintf("%q", shorten(want, 120)), fmt.Sprintf("%q", shorten(hl, 120)))
			}
		}
		if se.Error() == "" {
			bad("empty-message", "non-empty error message", "empty")
		}
	} else {
		atomic.AddInt64(&c.otherErr, 1)
		if _, isPtr := err.(*jmespath.SyntaxError); isPtr {
			bad("syntax-error-pointer", "SyntaxError value", "pointer")
		}
	}
	// the other entry points must agree with Compile on acceptance (C04: "Compile (and therefore Search)")
	if _, serr, spn := impl.SearchOnce(text, map[string]interface{}{"a": 1.0}); spn == nil && err != nil && serr == nil {
		bad("search-accepts-what-compile-rejects", "jmespath.Search fails for an expression that Compile rejects ("+err.Error()+")", "Search returned a value and a nil error")
	}
	if perr := parseOnly(text); (perr != nil) != (err != nil) {
		bad("parser-disagrees-with-compile", fmt.Sprintf("NewParser().Parse and Compile agree (Compile error: %v)", err), fmt.Sprintf("Parse error: %v", perr))
	}
	mjp, panicked, val := mustCompile(text)
	if panicked != (err != nil) {
		bad("mustcompile-disagrees", fmt.Sprintf("MustCompile panics iff Compile fails (Compile error: %v)", err), fmt.Sprintf("panicked=%v", panicked))
	} else if panicked {
		if !strings.Contains(val, strconv.Quote(text)) {
			bad("mustcompile-message", "panic value names the expression "+shorten(strconv.Quote(text), 80), shorten(val, 160))
		}
	} else if mjp == nil {
		bad("mustcompile-nil", "MustCompile returns the compiled expression", "nil")
	} else if impl.Render(mjp) != impl.Render(jp) {
		bad("mustcompile-different", "MustCompile returns what Compile returns: "+impl.Render(jp), impl.Render(mjp))
	}
}

func checkC17(r *harness.Run) harness.Coverage {
	r.Rule = "every string of up to n symbols over the 50-symbol lexer-class alphabet, every token sequence up to 4 (thorough 5) tokens over one spelling per kind in three whitespace styles, the structured-spelling alphabet up to 2 tokens, and pumped strings up to 64 KiB; invariants: exactly one of (expression, error); returned expression usable; SyntaxError carries the input and 0<=Offset<=len with the exact caret rendering; MustCompile panics iff Compile fails, naming the quoted expression, else returns an equivalent expression. Non-trivial = Compile fails with a SyntaxError after the first symbol or succeeds; distinct by string"
	r.Assumptions = []string{"errors that are not SyntaxError values (JSON decoding of literals / quoted identifiers, numeral range) are only required to be non-nil"}
	n, tn := 3, 4
	if r.Thorough() {
		n, tn = 4, 5
	}
	syms := univ.ByteSymbols
	var c c17Counts
	for k := 0; k <= n; k++ {
		total := pow(len(syms), k)
		harness.Parallel(total, func(wk, i int) {
			var b strings.Builder
			x := i
			for j := 0; j < k; j++ {
				b.WriteString(syms[x%len(syms)])
				x /= len(syms)
			}
			c17One(r, b.String(), &c)
		})
	}
	for k := 1; k <= tn; k++ {
		total := pow(len(blindAlphabet), k)
		harness.Parallel(total, func(wk, i int) {
			toks := seqAt(blindAlphabet, k, i, make([]model.Tok, 0, 8))
			for _, st := range []model.Style{model.Tight, model.Spaced, model.Wild} {
				c17One(r, model.Spell(toks, st), &c)
			}
		})
	}
	for k := 1; k <= 2; k++ {
		total := pow(len(richAlphabet), k)
		harness.Parallel(total, func(wk, i int) {
			c17One(r, model.Spell(seqAt(richAlphabet, k, i, make([]model.Tok, 0, 8)), model.Tight), &c)
		})
	}
	type pj struct {
		u, v, w string
		k       int
	}
	var jobs []pj
	for _, p := range univ.PumpPairs {
		for _, v := range []string{"", "a", "`1`", "#", "\xff"} {
			unit := len(p[0]) + len(p[1])
			for _, k := range []int{1, 2, 3, 100, 255, 256, 257, 511, 512, 513, 1023, 1024, 1025, 4096, 65536 / unit} {
				jobs = append(jobs, pj{p[0], v, p[1], k})
			}
		}
	}
	harness.Parallel(len(jobs), func(wk, i int) {
		j := jobs[i]
		c17One(r, strings.Repeat(j.u, j.k)+j.v+strings.Repeat(j.w, j.k), &c)
	})
	// tokens that carry bytes the lexer passes through (invalid UTF-8, multi-byte runes, controls) combined
	// with errors that only the parser detects: the SyntaxError must still carry the ORIGINAL text
	carriers := []string{"\"\xff\xff\xff\xff\"", "\"\xc3\xc3\xc3\"", "\ufeff'abc'", "'50%'", "\"%s\"", "a%d",
		"'\xff\xfe'", "`\"\xff\"`", "\"\xff\"", "'é😀'", "\"日本\"", "'\x01'", "`\"\\u00e9\"`", "'a\\'b'", "a"}
	suffixes := []string{"", "%v", " ]", ".", " a", "(", " ==", "[", "[?", " | ", ", b", " }", ")", " 'x'", "[0", ".*.", " &&"}
	for _, ca := range carriers {
		for _, su := range suffixes {
			for _, pre := range []string{"", "foo[?bar==", "[", "a.", "!", "foo.{a: ", "\ufeff", "a "} {
				c17One(r, pre+ca+su, &c)
			}
		}
	}
	r.Evaluations = c.cases
	r.Traces = c.cases
	r.States = c.cases
	r.Transitions = c.cases * 2
	r.Nontrivial = c.ok + c.syntaxErr
	r.Note("compiled", c.ok)
	r.Note("syntax_errors", c.syntaxErr)
	r.Note("other_errors", c.otherErr)
	r.Sample(map[string]interface{}{"expression": "a.", "Compile": "SyntaxError{Expression:\"a.\", Offset:2}", "HighlightLocation": "a.\\n  ^"})
	r.Sample(map[string]interface{}{"expression": "[0", "Compile": "error required (must not return (nil,nil) or an unusable expression)"})
	var d int64
	for _, x := range []int64{c.ok, c.syntaxErr, c.otherErr} {
		if x > 0 {
			d++
		}
	}
	return harness.Coverage{Exhaustive: true, Bounds: map[string]interface{}{"byte_symbols": n, "tokens": tn, "pump_max_bytes": 65536}, Outcomes: d}
}
