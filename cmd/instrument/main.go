// Command instrument rewrites the non-test Go files of package jmespath (read
// from -src, normally /repo's working tree) into -out and writes an overlay.json
// for `go build -overlay`. Nothing is written under -src.
//
// Rewrites (DESIGN.md appendix B.1):
//  1. verifPoint(k) before every statement of every block, case and comm clause;
//  2. range over a map -> iteration over verifKeysN(m) (sorted, then permuted by
//     the VerifMapOrder hook), so map order is harness-decided;
//  3. go f(x) -> verifGo(func(){ f(x) });
//  4. sync.Mutex / RWMutex / Once / WaitGroup -> scheduler-aware shims;
//  5. one generated file with the hooks, VerifGlobals() and the point table.
package main

import (
	"bytes"
	"encoding/json"
	"flag"
	"fmt"
	"go/ast"
	"go/format"
	"go/importer"
	"go/parser"
	"go/token"
	"go/types"
	"os"
	"path/filepath"
	"sort"
	"strings"
)

type site struct {
	File   string
	Line   int
	Func   string
	Atomic bool // the statement performs a sync/atomic operation
}

type instr struct {
	fset     *token.FileSet
	info     *types.Info
	pkg      *types.Package
	sites    []site
	mapTypes map[string]int // type string -> helper index
	mapKeyT  map[string]string
	curFunc  string
	curFile  string
	report   map[string]int
	fail     []string
}

func (in *instr) point(pos token.Pos) ast.Stmt {
	p := in.fset.Position(pos)
	id := len(in.sites)
	in.sites = append(in.sites, site{File: filepath.Base(p.Filename), Line: p.Line, Func: in.curFunc})
	return &ast.ExprStmt{X: &ast.CallExpr{Fun: ast.NewIdent("verifPoint"), Args: []ast.Expr{&ast.BasicLit{Kind: token.INT, Value: fmt.Sprint(id)}}}}
}

func (in *instr) stmts(list []ast.Stmt) []ast.Stmt {
	out := make([]ast.Stmt, 0, 2*len(list))
	for _, s := range list {
		out = append(out, in.point(s.Pos()))
		if in.usesAtomic(s) {
			in.sites[len(in.sites)-1].Atomic = true
			in.report["atomic-stmt"]++
		}
		out = append(out, in.stmt(s))
	}
	return out
}

// usesAtomic reports whether the statement itself (not its nested blocks)
// calls a function or method of sync/atomic.
func (in *instr) usesAtomic(s ast.Stmt) bool {
	found := false
	ast.Inspect(s, func(n ast.Node) bool {
		switch x := n.(type) {
		case *ast.BlockStmt, *ast.FuncLit:
			if n != ast.Node(s) {
				return false
			}
		case *ast.SelectorExpr:
			if obj := in.info.Uses[x.Sel]; obj != nil && obj.Pkg() != nil && obj.Pkg().Path() == "sync/atomic" {
				found = true
			}
		}
		return true
	})
	return found
}

func (in *instr) block(b *ast.BlockStmt) {
	if b == nil {
		return
	}
	b.List = in.stmts(b.List)
}

// stmt instruments nested blocks of s and returns the (possibly replaced) statement.
func (in *instr) stmt(s ast.Stmt) ast.Stmt {
	switch x := s.(type) {
	case *ast.BlockStmt:
		in.block(x)
	case *ast.IfStmt:
		in.exprsIn(x.Init)
		in.expr(x.Cond)
		in.block(x.Body)
		if x.Else != nil {
			x.Else = in.stmt(x.Else)
		}
	case *ast.ForStmt:
		in.exprsIn(x.Init)
		in.expr(x.Cond)
		in.exprsIn(x.Post)
		in.block(x.Body)
	case *ast.RangeStmt:
		in.expr(x.X)
		in.block(x.Body)
		if tv, ok := in.info.Types[x.X]; ok {
			if mt, ok := tv.Type.Underlying().(*types.Map); ok {
				return in.mapRange(x, tv.Type, mt)
			}
		}
	case *ast.SwitchStmt:
		in.exprsIn(x.Init)
		in.expr(x.Tag)
		in.clauses(x.Body)
	case *ast.TypeSwitchStmt:
		in.exprsIn(x.Init)
		in.exprsIn(x.Assign)
		in.clauses(x.Body)
	case *ast.SelectStmt:
		in.report["select"]++
		in.clauses(x.Body)
	case *ast.LabeledStmt:
		x.Stmt = in.stmt(x.Stmt)
	case *ast.GoStmt:
		in.report["go"]++
		in.expr(x.Call)
		// go f(args) -> evaluate f and args now, run the call on a scheduler thread
		return in.goStmt(x)
	case *ast.SendStmt:
		in.report["chan-send"]++
	default:
		in.exprsIn(s)
	}
	return s
}

func (in *instr) clauses(b *ast.BlockStmt) {
	for _, c := range b.List {
		switch cc := c.(type) {
		case *ast.CaseClause:
			for _, e := range cc.List {
				in.expr(e)
			}
			cc.Body = in.stmts(cc.Body)
		case *ast.CommClause:
			cc.Body = in.stmts(cc.Body)
		}
	}
}

// exprsIn instruments function literals inside a simple statement.
func (in *instr) exprsIn(s ast.Stmt) {
	if s == nil {
		return
	}
	ast.Inspect(s, func(n ast.Node) bool {
		if fl, ok := n.(*ast.FuncLit); ok {
			in.block(fl.Body)
			return false
		}
		if u, ok := n.(*ast.UnaryExpr); ok && u.Op == token.ARROW {
			in.report["chan-recv"]++
		}
		return true
	})
}

func (in *instr) expr(e ast.Expr) {
	if e == nil {
		return
	}
	in.exprsIn(&ast.ExprStmt{X: e})
}

func (in *instr) goStmt(g *ast.GoStmt) ast.Stmt {
	// { verifF := f; verifA0 := a0; ...; verifGo(func(){ verifF(verifA0, ...) }) }
	var pre []ast.Stmt
	call := &ast.CallExpr{Ellipsis: g.Call.Ellipsis}
	if _, isLit := g.Call.Fun.(*ast.FuncLit); isLit || len(g.Call.Args) == 0 {
		call.Fun = g.Call.Fun
	} else {
		pre = append(pre, &ast.AssignStmt{Lhs: []ast.Expr{ast.NewIdent("verifF")}, Tok: token.DEFINE, Rhs: []ast.Expr{g.Call.Fun}})
		call.Fun = ast.NewIdent("verifF")
	}
	for i, a := range g.Call.Args {
		name := fmt.Sprintf("verifA%d", i)
		pre = append(pre, &ast.AssignStmt{Lhs: []ast.Expr{ast.NewIdent(name)}, Tok: token.DEFINE, Rhs: []ast.Expr{a}})
		call.Args = append(call.Args, ast.NewIdent(name))
	}
	lit := &ast.FuncLit{Type: &ast.FuncType{Params: &ast.FieldList{}}, Body: &ast.BlockStmt{List: []ast.Stmt{&ast.ExprStmt{X: call}}}}
	pre = append(pre, &ast.ExprStmt{X: &ast.CallExpr{Fun: ast.NewIdent("verifGo"), Args: []ast.Expr{lit}}})
	return &ast.BlockStmt{List: pre}
}

func (in *instr) mapRange(x *ast.RangeStmt, t types.Type, mt *types.Map) ast.Stmt {
	in.report["map-range"]++
	if x.Tok != token.DEFINE && (x.Key != nil || x.Value != nil) {
		in.fail = append(in.fail, fmt.Sprintf("%s: range over map with '=' assignment is not supported", in.fset.Position(x.Pos())))
		return x
	}
	qual := func(p *types.Package) string {
		if p == in.pkg {
			return ""
		}
		return p.Name()
	}
	ts := types.TypeString(t, qual)
	idx, ok := in.mapTypes[ts]
	if !ok {
		idx = len(in.mapTypes)
		in.mapTypes[ts] = idx
		in.mapKeyT[ts] = types.TypeString(mt.Key(), qual)
	}
	n := len(in.sites)
	mName := fmt.Sprintf("verifM%d", n)
	kName := fmt.Sprintf("verifK%d", n)
	var body []ast.Stmt
	if id, ok := x.Key.(*ast.Ident); ok && id.Name != "_" {
		body = append(body, &ast.AssignStmt{Lhs: []ast.Expr{id}, Tok: token.DEFINE, Rhs: []ast.Expr{ast.NewIdent(kName)}})
	}
	if id, ok := x.Value.(*ast.Ident); ok && id.Name != "_" {
		body = append(body, &ast.AssignStmt{Lhs: []ast.Expr{id}, Tok: token.DEFINE,
			Rhs: []ast.Expr{&ast.IndexExpr{X: ast.NewIdent(mName), Index: ast.NewIdent(kName)}}})
	}
	body = append(body, x.Body.List...)
	loop := &ast.RangeStmt{Key: ast.NewIdent("_"), Value: ast.NewIdent(kName), Tok: token.DEFINE,
		X:    &ast.CallExpr{Fun: ast.NewIdent(fmt.Sprintf("verifKeys%d", idx)), Args: []ast.Expr{ast.NewIdent(mName)}},
		Body: &ast.BlockStmt{List: body}}
	return &ast.BlockStmt{List: []ast.Stmt{
		&ast.AssignStmt{Lhs: []ast.Expr{ast.NewIdent(mName)}, Tok: token.DEFINE, Rhs: []ast.Expr{x.X}},
		loop,
	}}
}

var syncShims = map[string]string{"Mutex": "verifMutex", "RWMutex": "verifRWMutex", "Once": "verifOnce", "WaitGroup": "verifWaitGroup", "Pool": "verifPool"}

func main() {
	src := flag.String("src", "/repo", "directory of package jmespath")
	out := flag.String("out", "", "output directory (overlay files)")
	flag.Parse()
	if *out == "" {
		fmt.Fprintln(os.Stderr, "instrument: -out required")
		os.Exit(2)
	}
	fset := token.NewFileSet()
	entries, err := os.ReadDir(*src)
	if err != nil {
		fmt.Fprintln(os.Stderr, "instrument:", err)
		os.Exit(2)
	}
	var files []*ast.File
	var names []string
	for _, e := range entries {
		n := e.Name()
		if e.IsDir() || !strings.HasSuffix(n, ".go") || strings.HasSuffix(n, "_test.go") {
			continue
		}
		f, err := parser.ParseFile(fset, filepath.Join(*src, n), nil, parser.ParseComments)
		if err != nil {
			fmt.Fprintln(os.Stderr, "instrument: parse error:", err)
			os.Exit(2)
		}
		files = append(files, f)
		names = append(names, n)
	}
	info := &types.Info{Types: map[ast.Expr]types.TypeAndValue{}, Defs: map[*ast.Ident]types.Object{}, Uses: map[*ast.Ident]types.Object{}}
	conf := types.Config{Importer: importer.ForCompiler(fset, "source", nil), Error: func(err error) {}}
	pkg, err := conf.Check("github.com/jmespath/go-jmespath", fset, files, info)
	if err != nil {
		fmt.Fprintln(os.Stderr, "instrument: the package does not type-check:", err)
		os.Exit(2)
	}
	in := &instr{fset: fset, info: info, pkg: pkg, mapTypes: map[string]int{}, mapKeyT: map[string]string{}, report: map[string]int{}}
	overlay := map[string]string{}
	os.MkdirAll(*out, 0o755)
	var globals []string
	usesSyncShim := false
	for i, f := range files {
		name := names[i]
		// package-level variables
		for _, d := range f.Decls {
			if gd, ok := d.(*ast.GenDecl); ok && gd.Tok == token.VAR {
				for _, sp := range gd.Specs {
					for _, id := range sp.(*ast.ValueSpec).Names {
						if id.Name != "_" {
							globals = append(globals, id.Name)
						}
					}
				}
			}
		}
		if strings.HasPrefix(name, "verif_") {
			continue // hook file: compiled as it is
		}
		in.curFile = name
		// sync shims: sync.Mutex -> verifMutex etc. (types only)
		syncName := ""
		for _, im := range f.Imports {
			if im.Path.Value == `"sync"` {
				syncName = "sync"
				if im.Name != nil {
					syncName = im.Name.Name
				}
				in.report["import-sync"]++
			}
			if im.Path.Value == `"sync/atomic"` {
				in.report["import-sync/atomic"]++
			}
		}
		if syncName != "" {
			replaceSel := func(e ast.Expr) ast.Expr {
				if se, ok := e.(*ast.SelectorExpr); ok {
					if id, ok := se.X.(*ast.Ident); ok && id.Name == syncName {
						if shim, ok := syncShims[se.Sel.Name]; ok {
							usesSyncShim = true
							return ast.NewIdent(shim)
						}
					}
				}
				return e
			}
			rewriteExprs(f, replaceSel)
		}
		for _, d := range f.Decls {
			if fd, ok := d.(*ast.FuncDecl); ok && fd.Body != nil {
				in.curFunc = fd.Name.Name
				if fd.Recv != nil && len(fd.Recv.List) > 0 {
					in.curFunc = types.ExprString(fd.Recv.List[0].Type) + "." + fd.Name.Name
				}
				in.block(fd.Body)
			} else if gd, ok := d.(*ast.GenDecl); ok {
				in.curFunc = "(package level)"
				ast.Inspect(gd, func(n ast.Node) bool {
					if fl, ok := n.(*ast.FuncLit); ok {
						in.block(fl.Body)
						return false
					}
					return true
				})
			}
		}
		f.Comments = nil
		var buf bytes.Buffer
		if err := format.Node(&buf, fset, f); err != nil {
			fmt.Fprintln(os.Stderr, "instrument: cannot print", name, err)
			os.Exit(2)
		}
		text := buf.String()
		if syncName != "" {
			// keep the import used even if every use was replaced by a shim
			text += "\nvar _ " + syncName + ".Locker\n"
		}
		dst := filepath.Join(*out, name)
		if err := os.WriteFile(dst, []byte(text), 0o644); err != nil {
			fmt.Fprintln(os.Stderr, "instrument:", err)
			os.Exit(2)
		}
		abs, _ := filepath.Abs(filepath.Join(*src, name))
		overlay[abs] = dst
	}
	if len(in.fail) > 0 {
		for _, f := range in.fail {
			fmt.Fprintln(os.Stderr, "instrument:", f)
		}
		os.Exit(2)
	}
	sort.Strings(globals)
	// generated file
	var g bytes.Buffer
	g.WriteString("package jmespath\n\n// Generated by /verif/cmd/instrument. Not part of the repository.\n\nimport (\n\t\"fmt\"\n\t\"sort\"\n\t\"sync\"\n)\n\nvar _ = fmt.Sprint\nvar _ = sort.Strings\nvar _ sync.Mutex\n\n")
	g.WriteString("// VerifPoint is called before every statement of the package (nil = free running).\nvar VerifPoint func(id int)\n\nfunc verifPoint(id int) {\n\tif h := VerifPoint; h != nil {\n\t\th(id)\n\t}\n}\n\n")
	g.WriteString("// VerifMapOrder decides the iteration order of a map with n keys (nil = sorted order).\nvar VerifMapOrder func(n int) []int\n\n")
	g.WriteString("// VerifGo runs fn on a new scheduler thread (nil = a real goroutine).\nvar VerifGo func(fn func())\n\nfunc verifGo(fn func()) {\n\tif h := VerifGo; h != nil {\n\t\th(fn)\n\t\treturn\n\t}\n\tgo fn()\n}\n\n")
	g.WriteString("// VerifBlock parks the calling scheduler thread until VerifWake(key); VerifSync reports a synchronisation operation.\nvar VerifBlock func(key interface{})\nvar VerifWake func(key interface{})\nvar VerifSync func(op string, key interface{})\n\n")
	type mt struct {
		ts  string
		idx int
	}
	var mts []mt
	for ts, idx := range in.mapTypes {
		mts = append(mts, mt{ts, idx})
	}
	sort.Slice(mts, func(i, j int) bool { return mts[i].idx < mts[j].idx })
	for _, m := range mts {
		kt := in.mapKeyT[m.ts]
		fmt.Fprintf(&g, "func verifKeys%d(m %s) []%s {\n\tkeys := make([]%s, 0, len(m))\n\tfor k := range m {\n\t\tkeys = append(keys, k)\n\t}\n", m.idx, m.ts, kt, kt)
		if kt == "string" {
			g.WriteString("\tsort.Strings(keys)\n")
		} else {
			g.WriteString("\tsort.Slice(keys, func(i, j int) bool { return fmt.Sprint(keys[i]) < fmt.Sprint(keys[j]) })\n")
		}
		fmt.Fprintf(&g, "\tif h := VerifMapOrder; h != nil && len(keys) > 1 {\n\t\tperm := h(len(keys))\n\t\tif len(perm) == len(keys) {\n\t\t\tout := make([]%s, len(keys))\n\t\t\tfor i, p := range perm {\n\t\t\t\tout[i] = keys[p]\n\t\t\t}\n\t\t\treturn out\n\t\t}\n\t}\n\treturn keys\n}\n\n", kt)
	}
	g.WriteString("// VerifGlobals returns the address of every package-level variable.\nfunc VerifGlobals() map[string]interface{} {\n\treturn map[string]interface{}{\n")
	for _, name := range globals {
		if strings.HasPrefix(name, "Verif") || strings.HasPrefix(name, "verif") {
			continue
		}
		fmt.Fprintf(&g, "\t\t%q: &%s,\n", name, name)
	}
	g.WriteString("\t}\n}\n\n")
	g.WriteString("// VerifSites maps a point id to file:line (function).\nvar VerifSites = []string{\n")
	for _, s := range in.sites {
		fmt.Fprintf(&g, "\t%q,\n", fmt.Sprintf("%s:%d (%s)", s.File, s.Line, s.Func))
	}
	g.WriteString("}\n\n// VerifAtomicPoints: points whose statement performs a sync/atomic operation.\nvar VerifAtomicPoints = map[int]bool{\n")
	for i, s := range in.sites {
		if s.Atomic {
			fmt.Fprintf(&g, "\t%d: true,\n", i)
		}
	}
	g.WriteString("}\n\n")
	rep, _ := json.Marshal(in.report)
	fmt.Fprintf(&g, "// VerifInstrumentReport: constructs met by the instrumenter.\nconst VerifInstrumentReport = %q\n\n", string(rep))
	g.WriteString(shimSource)
	_ = usesSyncShim
	genPath := filepath.Join(*out, "verif_generated.go")
	if err := os.WriteFile(genPath, g.Bytes(), 0o644); err != nil {
		fmt.Fprintln(os.Stderr, "instrument:", err)
		os.Exit(2)
	}
	abs, _ := filepath.Abs(filepath.Join(*src, "verif_generated.go"))
	overlay[abs] = genPath
	ov, _ := json.MarshalIndent(map[string]interface{}{"Replace": overlay}, "", " ")
	if err := os.WriteFile(filepath.Join(*out, "overlay.json"), ov, 0o644); err != nil {
		fmt.Fprintln(os.Stderr, "instrument:", err)
		os.Exit(2)
	}
	fmt.Printf("instrument: %d files, %d points, %d map-range rewrites, report %s\n", len(overlay)-1, len(in.sites), in.report["map-range"], rep)
}

// rewriteExprs applies fn to every expression slot that can hold a type.
func rewriteExprs(f *ast.File, fn func(ast.Expr) ast.Expr) {
	ast.Inspect(f, func(n ast.Node) bool {
		switch x := n.(type) {
		case *ast.Field:
			x.Type = fn(x.Type)
		case *ast.ValueSpec:
			if x.Type != nil {
				x.Type = fn(x.Type)
			}
		case *ast.CompositeLit:
			if x.Type != nil {
				x.Type = fn(x.Type)
			}
		case *ast.StarExpr:
			x.X = fn(x.X)
		case *ast.ArrayType:
			x.Elt = fn(x.Elt)
		case *ast.MapType:
			x.Key = fn(x.Key)
			x.Value = fn(x.Value)
		case *ast.TypeSpec:
			x.Type = fn(x.Type)
		case *ast.CallExpr:
			for i, a := range x.Args {
				x.Args[i] = fn(a) // new(sync.Mutex)
			}
		case *ast.UnaryExpr:
			x.X = fn(x.X)
		}
		return true
	})
}

const shimSource = `
// ---- scheduler-aware replacements for sync types (free running: the real ones) ----

type verifMutex struct {
	real sync.Mutex
	held bool
}

func (m *verifMutex) Lock() {
	if VerifBlock == nil {
		m.real.Lock()
		return
	}
	if h := VerifSync; h != nil {
		h("lock", m)
	}
	for m.held {
		VerifBlock(m)
	}
	m.held = true
}

func (m *verifMutex) Unlock() {
	if VerifBlock == nil {
		m.real.Unlock()
		return
	}
	if !m.held {
		panic("sync: unlock of unlocked mutex")
	}
	m.held = false
	if h := VerifSync; h != nil {
		h("unlock", m)
	}
	VerifWake(m)
}

type verifRWMutex struct {
	real    sync.RWMutex
	writer  bool
	readers int
}

func (m *verifRWMutex) Lock() {
	if VerifBlock == nil {
		m.real.Lock()
		return
	}
	if h := VerifSync; h != nil {
		h("lock", m)
	}
	for m.writer || m.readers > 0 {
		VerifBlock(m)
	}
	m.writer = true
}

func (m *verifRWMutex) Unlock() {
	if VerifBlock == nil {
		m.real.Unlock()
		return
	}
	m.writer = false
	if h := VerifSync; h != nil {
		h("unlock", m)
	}
	VerifWake(m)
}

func (m *verifRWMutex) RLock() {
	if VerifBlock == nil {
		m.real.RLock()
		return
	}
	if h := VerifSync; h != nil {
		h("rlock", m)
	}
	for m.writer {
		VerifBlock(m)
	}
	m.readers++
}

func (m *verifRWMutex) RUnlock() {
	if VerifBlock == nil {
		m.real.RUnlock()
		return
	}
	m.readers--
	if h := VerifSync; h != nil {
		h("runlock", m)
	}
	VerifWake(m)
}

func (m *verifRWMutex) RLocker() sync.Locker { return (*verifRLocker)(m) }

type verifRLocker verifRWMutex

func (r *verifRLocker) Lock()   { (*verifRWMutex)(r).RLock() }
func (r *verifRLocker) Unlock() { (*verifRWMutex)(r).RUnlock() }

type verifOnce struct {
	real sync.Once
	m    verifMutex
	done bool
}

func (o *verifOnce) Do(f func()) {
	if VerifBlock == nil {
		o.real.Do(f)
		return
	}
	if h := VerifSync; h != nil {
		h("once", o)
	}
	if o.done {
		return
	}
	o.m.Lock()
	defer o.m.Unlock()
	if !o.done {
		defer func() { o.done = true }()
		f()
	}
}

type verifWaitGroup struct {
	real sync.WaitGroup
	n    int
}

func (w *verifWaitGroup) Add(d int) {
	if VerifBlock == nil {
		w.real.Add(d)
		return
	}
	w.n += d
	if w.n < 0 {
		panic("sync: negative WaitGroup counter")
	}
	if w.n == 0 {
		VerifWake(w)
	}
}

func (w *verifWaitGroup) Done() { w.Add(-1) }

func (w *verifWaitGroup) Wait() {
	if VerifBlock == nil {
		w.real.Wait()
		return
	}
	if h := VerifSync; h != nil {
		h("wait", w)
	}
	for w.n > 0 {
		VerifBlock(w)
	}
}

// verifPool replaces sync.Pool in the instrumented build: a deterministic LIFO free list that never
// drops an item and has no per-P caches, so that an execution is a function of the schedule alone
// (a real sync.Pool hands out different objects from run to run). VerifResetPools empties every pool;
// the schedule explorer calls it before each execution, which makes every execution start like a
// fresh process and keeps replays exact. Get and Put are reported as synchronisation operations.
type verifPool struct {
	New   func() interface{}
	mu    sync.Mutex
	items []interface{}
	reg   bool
}

var verifPoolsMu sync.Mutex
var verifPools []*verifPool

// VerifResetPools empties every pool that has been used so far.
func VerifResetPools() {
	verifPoolsMu.Lock()
	for _, p := range verifPools {
		p.mu.Lock()
		p.items = nil
		p.mu.Unlock()
	}
	verifPoolsMu.Unlock()
}

func (p *verifPool) register() {
	if !p.reg {
		p.reg = true
		verifPoolsMu.Lock()
		verifPools = append(verifPools, p)
		verifPoolsMu.Unlock()
	}
}

func (p *verifPool) Get() interface{} {
	if h := VerifSync; h != nil {
		h("pool-get", p)
	}
	p.mu.Lock()
	p.register()
	var x interface{}
	if n := len(p.items); n > 0 {
		x = p.items[n-1]
		p.items[n-1] = nil
		p.items = p.items[:n-1]
	}
	p.mu.Unlock()
	if x == nil && p.New != nil {
		x = p.New()
	}
	return x
}

func (p *verifPool) Put(x interface{}) {
	if x == nil {
		return
	}
	if h := VerifSync; h != nil {
		h("pool-put", p)
	}
	p.mu.Lock()
	p.register()
	p.items = append(p.items, x)
	p.mu.Unlock()
}
`
