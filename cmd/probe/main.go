package main

import (
	"fmt"
	jmespath "github.com/jmespath/go-jmespath"
)

func main() {
	r, err := jmespath.Search("a.b", map[string]interface{}{"a": map[string]interface{}{"b": 1.0}})
	fmt.Println(r, err)
}
