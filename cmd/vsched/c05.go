package main

import (
	"fmt"
	"strings"

	jmespath "github.com/jmespath/go-jmespath"

	"verif/harness"
	"verif/impl"
	"verif/univ"
)

func init() {
	workers["C05"] = workC05
}

type budgetExceeded struct{}

// countSteps runs fn with a statement counter; exceeding the budget aborts the call.
func countSteps(budget int64, fn func()) (steps int64, exceeded bool) {
	jmespath.VerifPoint = func(int) {
		steps++
		if steps > budget {
			panic(budgetExceeded{})
		}
	}
	defer func() {
		jmespath.VerifPoint = nil
		if r := recover(); r != nil {
			if _, ok := r.(budgetExceeded); ok {
				exceeded = true
				return
			}
			// other panics are C05's plain pass business
		}
	}()
	fn()
	// the abort may have been swallowed by a recover() between the hook and here
	if steps > budget {
		exceeded = true
	}
	return
}

// workC05 is the deterministic termination / complexity pass of C05: every
// pumped family u^k v w^k is compiled (and searched) for k = 8, 16, 32, 64, 128
// with a statement counter. A call that exceeds the statement budget, or whose
// statement count grows faster than linearly in k (ratio > 3 per doubling,
// three times in a row), violates "time bounded by the size of the expression".
func workC05(c *shardCtx) {
	type fam struct{ u, v, w string }
	var fams []fam
	for _, p := range univ.PumpPairs {
		for _, v := range []string{"", "a", "`1`", "@", "*", "a:b", "a b", "#", "'", "0"} {
			fams = append(fams, fam{p[0], v, p[1]})
		}
	}
	units := univ.PumpUnits
	for i, u := range units {
		for j, w := range units {
			if (i*31+j*17)%5 == 0 || c.thorough() {
				fams = append(fams, fam{u, "a", w}, fam{u, "", w})
			}
		}
	}
	ks := []int{8, 16, 32, 64, 128}
	const budget = 3_000_000
	doc := univJ(`{"a":[{"a":[1,2,3],"b":"x"},{"a":[],"b":null}],"b":{"a":1}}`)
	for fi, f := range fams {
		if !c.mine(fi) {
			continue
		}
		c.journal(fmt.Sprintf("C05 steps u=%q v=%q w=%q", f.u, f.v, f.w))
		var steps []int64
		for _, k := range ks {
			text := strings.Repeat(f.u, k) + f.v + strings.Repeat(f.w, k)
			var jp *jmespath.JMESPath
			s1, ex := countSteps(budget, func() { jp, _, _ = impl.Compile(text) })
			c.add("step_counted_calls", 1)
			c.add("statements", s1)
			if !ex && jp != nil {
				s2, ex2 := countSteps(budget, func() { impl.Search(jp, doc) })
				c.add("step_counted_calls", 1)
				c.add("statements", s2)
				s1 += s2
				ex = ex2
			}
			if ex {
				c.report(harness.Violation{Kind: "hang", Signature: fmt.Sprintf("step-budget:u=%q,w=%q", f.u, f.w),
					Input:    map[string]interface{}{"expression": shortText(text), "pump": fmt.Sprintf("u=%q v=%q w=%q k=%d", f.u, f.v, f.w, k), "bytes": len(text), "statements_for_smaller_k": steps},
					Expected: fmt.Sprintf("Compile/Search of a %d-byte expression finish within %d statements (time bounded by the size)", len(text), budget),
					Observed: "statement budget exceeded (super-linear or non-terminating)"})
				steps = nil
				break
			}
			steps = append(steps, s1)
		}
		// growth: more than 3x per doubling of k, three times in a row, with non-trivial counts
		if len(steps) == len(ks) {
			bad := 0
			for i := 1; i < len(steps); i++ {
				if steps[i-1] > 200 && steps[i] > 3*steps[i-1] {
					bad++
				} else {
					bad = 0
				}
				if bad >= 3 {
					c.report(harness.Violation{Kind: "hang", Signature: fmt.Sprintf("super-linear:u=%q,w=%q", f.u, f.w),
						Input:    map[string]interface{}{"pump": fmt.Sprintf("u=%q v=%q w=%q", f.u, f.v, f.w), "k": ks, "statements": steps},
						Expected: "statement count at most linear in the size of the expression (about 2x per doubling)", Observed: fmt.Sprintf("statements %v", steps)})
					break
				}
			}
			if fi%97 == 0 {
				c.sample(map[string]interface{}{"pump": fmt.Sprintf("u=%q v=%q w=%q", f.u, f.v, f.w), "k": ks, "statements": steps})
			}
		}
	}
	// no panic whatever iteration order the runtime picks for a map
	mapOrderPass(c, "C05", true)
	c.res.Notes["pumped_families"] = len(fams)
	c.res.Notes["statement_budget"] = budget
}

func shortText(s string) string {
	if len(s) > 120 {
		return s[:120] + fmt.Sprintf("…(%d bytes)", len(s))
	}
	return s
}
