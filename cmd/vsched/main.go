// Command vsched hosts the checks that need the instrumented build of the
// library (every statement preceded by a scheduling/monitor point, map order
// decided by the harness): C06 (write monitor), C13 (history closure), C12
// (schedule exploration). It shards its work over worker subprocesses because
// the instrumentation hooks are process-global.
package main

import (
	"bufio"
	"encoding/json"
	"flag"
	"fmt"
	"os"
	"os/exec"
	"strconv"
	"strings"
	"sync"

	jmespath "github.com/jmespath/go-jmespath"

	"verif/harness"
	"verif/model"
)

// shardResult is what a worker subprocess reports.
type shardResult struct {
	Violations []harness.Violation    `json:"violations"`
	Counters   map[string]int64       `json:"counters"`
	Samples    []interface{}          `json:"samples"`
	Notes      map[string]interface{} `json:"notes"`
	Capped     string                 `json:"capped"`
}

type shardCtx struct {
	shard, shards int
	tier          string
	res           *shardResult
}

func (c *shardCtx) mine(i int) bool { return i%c.shards == c.shard }
func (c *shardCtx) add(k string, d int64) { c.res.Counters[k] += d }
func (c *shardCtx) thorough() bool   { return c.tier == "thorough" }
func (c *shardCtx) report(v harness.Violation) {
	for i := range c.res.Violations {
		if c.res.Violations[i].Signature == v.Signature {
			c.res.Violations[i].Count++
			return
		}
	}
	v.Count = 1
	c.res.Violations = append(c.res.Violations, v)
}
func (c *shardCtx) sample(v interface{}) {
	if len(c.res.Samples) < 3 {
		c.res.Samples = append(c.res.Samples, v)
	}
}

type workerFn func(c *shardCtx)

var workers = map[string]workerFn{}

// finishers turn merged shard results into the evidence of a property.
var finishers = map[string]func(r *harness.Run, counters map[string]int64, notes map[string]interface{}) harness.Coverage{}

func main() {
	prop := flag.String("prop", "", "property id")
	tier := flag.String("tier", "quick", "quick|thorough")
	shard := flag.String("shard", "", "i/n (worker mode)")
	flag.Parse()
	fn, ok := workers[*prop]
	if !ok {
		harness.Fatal("vsched: unknown property %q", *prop)
	}
	if *shard != "" {
		parts := strings.Split(*shard, "/")
		i, _ := strconv.Atoi(parts[0])
		n, _ := strconv.Atoi(parts[1])
		c := &shardCtx{shard: i, shards: n, tier: *tier, res: &shardResult{Counters: map[string]int64{}, Notes: map[string]interface{}{}}}
		fn(c)
		out := bufio.NewWriter(os.Stdout)
		js, _ := json.Marshal(c.res)
		out.WriteString("SHARD-RESULT ")
		out.Write(js)
		out.WriteString("\n")
		out.Flush()
		return
	}
	// parent: model grounding, spawn workers, merge
	r := harness.Start(*prop, *tier)
	if n, probs := model.Ground(harness.Root + "/corpus"); len(probs) > 0 || n < 800 {
		harness.Fatal("reference model disagrees with the compliance corpus; refusing to judge")
	}
	r.Note("instrumentation", fmt.Sprintf("%d statement points; constructs met: %s", len(jmespath.VerifSites), jmespath.VerifInstrumentReport))
	n := harness.Workers()
	self, _ := os.Executable()
	results := make([]*shardResult, n)
	var wg sync.WaitGroup
	var failed []string
	var mu sync.Mutex
	for i := 0; i < n; i++ {
		wg.Add(1)
		go func(i int) {
			defer wg.Done()
			cmd := exec.Command(self, "-prop", *prop, "-tier", r.Tier, "-shard", fmt.Sprintf("%d/%d", i, n))
			cmd.Env = append(os.Environ(), "GOMAXPROCS=2")
			cmd.Stderr = os.Stderr
			out, err := cmd.Output()
			var res *shardResult
			for _, line := range strings.Split(string(out), "\n") {
				if strings.HasPrefix(line, "SHARD-RESULT ") {
					res = &shardResult{}
					if jerr := json.Unmarshal([]byte(strings.TrimPrefix(line, "SHARD-RESULT ")), res); jerr != nil {
						res = nil
					}
				}
			}
			if res == nil {
				mu.Lock()
				tail := string(out)
				if len(tail) > 2000 {
					tail = tail[len(tail)-2000:]
				}
				failed = append(failed, fmt.Sprintf("shard %d: %v\n%s", i, err, tail))
				mu.Unlock()
				return
			}
			results[i] = res
		}(i)
	}
	wg.Wait()
	if len(failed) > 0 {
		for _, f := range failed {
			fmt.Fprintln(os.Stderr, f)
		}
		harness.Fatal("vsched: %d worker(s) did not deliver a result", len(failed))
	}
	counters := map[string]int64{}
	notes := map[string]interface{}{}
	for _, res := range results {
		for k, v := range res.Counters {
			counters[k] += v
		}
		for k, v := range res.Notes {
			notes[k] = v
		}
		for _, v := range res.Violations {
			for j := int64(0); j < v.Count; j++ {
				r.Report(v)
			}
		}
		for _, s := range res.Samples {
			r.Sample(s)
		}
		if res.Capped != "" {
			r.Cap(res.Capped)
		}
	}
	if *prop == "C12" {
		raceCompanion(r)
	}
	cov := finishers[*prop](r, counters, notes)
	os.Exit(r.Finish(cov))
}
