// Command vsched hosts the checks that need the instrumented build of the
// library (every statement preceded by a scheduling/monitor point, map order
// decided by the harness): C06 (write monitor), C13 (history closure), C12
// (schedule exploration). It shards its work over worker subprocesses because
// the instrumentation hooks are process-global.
package main

import (
	"bufio"
	"encoding/json"
	"flag"
	"fmt"
	"os"
	"os/exec"
	"strconv"
	"strings"
	"sync"
	"syscall"

	jmespath "github.com/jmespath/go-jmespath"

	"verif/harness"
	"verif/model"
)

// shardResult is what a worker subprocess reports.
type shardResult struct {
	Violations []harness.Violation    `json:"violations"`
	Counters   map[string]int64       `json:"counters"`
	Samples    []interface{}          `json:"samples"`
	Notes      map[string]interface{} `json:"notes"`
	Capped     string                 `json:"capped"`
}

type shardCtx struct {
	shard, shards int
	tier          string
	res           *shardResult
	journalPath   string
}

func (c *shardCtx) mine(i int) bool { return i%c.shards == c.shard }

// journal records the case a worker is about to run, so that a fatal runtime
// error (which can not be recovered) can be attributed by the parent.
func (c *shardCtx) journal(what string) {
	os.WriteFile(c.journalPath, []byte(what), 0o644)
}
func (c *shardCtx) add(k string, d int64) { c.res.Counters[k] += d }
func (c *shardCtx) thorough() bool        { return c.tier == "thorough" }
func (c *shardCtx) report(v harness.Violation) {
	for i := range c.res.Violations {
		if c.res.Violations[i].Signature == v.Signature {
			c.res.Violations[i].Count++
			return
		}
	}
	v.Count = 1
	c.res.Violations = append(c.res.Violations, v)
}
func (c *shardCtx) sample(v interface{}) {
	if len(c.res.Samples) < 3 {
		c.res.Samples = append(c.res.Samples, v)
	}
}

type workerFn func(c *shardCtx)

var workers = map[string]workerFn{}

// finishers turn merged shard results into the evidence of a property.
// preparers run once in the parent before the workers start.
var preparers = map[string]func(r *harness.Run){}

// freshModes answer "-fresh <i> -mode <m>" requests: one call in a brand-new process.
var freshModes = map[string]func(i int, mode string) string{}

var finishers = map[string]func(r *harness.Run, counters map[string]int64, notes map[string]interface{}) harness.Coverage{}

func main() {
	prop := flag.String("prop", "", "property id")
	tier := flag.String("tier", "quick", "quick|thorough")
	shard := flag.String("shard", "", "i/n (worker mode)")
	fresh := flag.Int("fresh", -1, "fresh-process reference mode: index")
	mode := flag.String("mode", "", "fresh-process reference mode: operation")
	flag.Parse()
	if *fresh >= 0 {
		fmt.Println("FRESH-RESULT " + freshModes[*prop](*fresh, *mode))
		return
	}
	fn, ok := workers[*prop]
	if !ok {
		harness.Fatal("vsched: unknown property %q", *prop)
	}
	if *shard != "" {
		parts := strings.Split(*shard, "/")
		i, _ := strconv.Atoi(parts[0])
		n, _ := strconv.Atoi(parts[1])
		c := &shardCtx{shard: i, shards: n, tier: *tier, res: &shardResult{Counters: map[string]int64{}, Notes: map[string]interface{}{}},
			journalPath: fmt.Sprintf("%s/bin/journal-%s-%d.txt", harness.Root, *prop, i)}
		fn(c)
		out := bufio.NewWriter(os.Stdout)
		js, _ := json.Marshal(c.res)
		out.WriteString("SHARD-RESULT ")
		out.Write(js)
		out.WriteString("\n")
		out.Flush()
		return
	}
	// parent: model grounding, spawn workers, merge
	r := harness.Start(*prop, *tier)
	if n, probs := model.Ground(harness.Root + "/corpus"); len(probs) > 0 || n < 800 {
		harness.Fatal("reference model disagrees with the compliance corpus; refusing to judge")
	}
	r.Note("instrumentation", fmt.Sprintf("%d statement points; constructs met: %s", len(jmespath.VerifSites), jmespath.VerifInstrumentReport))
	if p := preparers[*prop]; p != nil {
		p(r)
	}
	n := harness.Workers()
	self, _ := os.Executable()
	results := make([]*shardResult, n)
	var wg sync.WaitGroup
	var failed []string
	var crashes []harness.Violation
	var mu sync.Mutex
	for i := 0; i < n; i++ {
		wg.Add(1)
		go func(i int) {
			defer wg.Done()
			cmd := exec.Command(self, "-prop", *prop, "-tier", r.Tier, "-shard", fmt.Sprintf("%d/%d", i, n))
			cmd.Env = append(os.Environ(), "GOMAXPROCS=2")
			var errBuf strings.Builder
			cmd.Stderr = &errBuf
			out, err := cmd.Output()
			var res *shardResult
			for _, line := range strings.Split(string(out), "\n") {
				if strings.HasPrefix(line, "SHARD-RESULT ") {
					res = &shardResult{}
					if jerr := json.Unmarshal([]byte(strings.TrimPrefix(line, "SHARD-RESULT ")), res); jerr != nil {
						res = nil
					}
				}
			}
			if res == nil {
				// the worker died (fatal runtime error, os.Exit, kill): attribute it to the journaled case
				mu.Lock()
				stderr := errBuf.String()
				head := stderr
				if len(head) > 1500 {
					head = head[:1500]
				}
				journal, _ := os.ReadFile(fmt.Sprintf("%s/bin/journal-%s-%d.txt", harness.Root, *prop, i))
				cause := "worker process died: " + fmt.Sprint(err)
				for _, l := range strings.Split(stderr, "\n") {
					if strings.HasPrefix(l, "fatal error:") || strings.HasPrefix(l, "panic:") || strings.HasPrefix(l, "TOOLING-ERROR") {
						cause = l
						break
					}
				}
				// killed from outside (out-of-memory killer, timeout) or out of memory: no verdict, not a violation
				if ee, ok := err.(*exec.ExitError); ok && !strings.Contains(stderr, "fatal error:") && !strings.Contains(stderr, "panic:") {
					if ws, ok := ee.Sys().(syscall.WaitStatus); ok && ws.Signaled() {
						cause = "TOOLING-ERROR: worker killed by signal " + ws.Signal().String() + " (resource exhaustion or external kill), no verdict"
					}
				}
				if strings.Contains(cause, "out of memory") || strings.Contains(cause, "cannot allocate memory") {
					cause = "TOOLING-ERROR: worker ran out of memory, no verdict: " + cause
				}
				if strings.HasPrefix(cause, "TOOLING-ERROR") {
					failed = append(failed, fmt.Sprintf("shard %d: %s", i, cause))
				} else {
					crashes = append(crashes, harness.Violation{Kind: "crash", Signature: "worker-crash:" + cause,
						Input:    map[string]interface{}{"last_journaled_case": string(journal)},
						Expected: "the library returns on every case", Observed: cause + " — stderr begins: " + head})
				}
				mu.Unlock()
				return
			}
			results[i] = res
		}(i)
	}
	wg.Wait()
	if len(failed) > 0 {
		for _, f := range failed {
			fmt.Fprintln(os.Stderr, f)
		}
		harness.Fatal("vsched: %d worker(s) did not deliver a result", len(failed))
	}
	counters := map[string]int64{}
	notes := map[string]interface{}{}
	for _, cv := range crashes {
		r.Report(cv)
		r.Cap("a worker process crashed; its share of the universe was not completed")
	}
	for _, res := range results {
		if res == nil {
			continue
		}
		for k, v := range res.Counters {
			counters[k] += v
		}
		for k, v := range res.Notes {
			notes[k] = v
		}
		for _, v := range res.Violations {
			for j := int64(0); j < v.Count; j++ {
				r.Report(v)
			}
		}
		for _, s := range res.Samples {
			r.Sample(s)
		}
		if res.Capped != "" {
			r.Cap(res.Capped)
		}
	}
	if *prop == "C12" {
		raceCompanion(r)
	}
	if *prop == "C05" {
		// side pass of C05: hand the result to the plain driver, which writes the evidence
		side := map[string]interface{}{"counters": counters, "notes": notes, "violations": r.Violations(), "samples": r.Samples()}
		js, _ := json.Marshal(side)
		os.WriteFile(harness.Root+"/bin/c05-steps.json", js, 0o644)
		fmt.Printf("C05 step pass: families=%v calls=%d statements=%d violations=%d\n", notes["pumped_families"], counters["step_counted_calls"], counters["statements"], len(r.Violations()))
		return
	}
	cov := finishers[*prop](r, counters, notes)
	os.Exit(r.Finish(cov))
}
