package main

import (
	"fmt"
	"strings"

	jmespath "github.com/jmespath/go-jmespath"

	"verif/harness"
	"verif/impl"
	"verif/model"
	"verif/snap"
	"verif/univ"
)

func init() {
	workers["C06"] = workC06
	finishers["C06"] = finishC06
}

// spare deep-copies a JSON value giving every array two hidden elements of
// spare capacity (as slices produced by json.Unmarshal usually have), so that an
// append or in-place write beyond len is visible to the snapshot.
func spare(v interface{}) interface{} {
	switch x := v.(type) {
	case []interface{}:
		out := make([]interface{}, len(x), len(x)+2)
		for i, e := range x {
			out[i] = spare(e)
		}
		full := out[:len(x)+2]
		full[len(x)] = "SPARE-0"
		full[len(x)+1] = "SPARE-1"
		return out
	case map[string]interface{}:
		out := make(map[string]interface{}, len(x))
		for k, e := range x {
			out[k] = spare(e)
		}
		return out
	}
	return v
}

var mutationDocs = univ.Js(
	`[3,1,2]`, `["b","c","a"]`, `[3,1,2,1,3]`, `[[3,1,2],[2,1],[9,8,7]]`, `[{"k":2,"t":0},{"k":1,"t":1},{"k":3,"t":2},{"k":1,"t":3}]`,
	`{"a":[3,1,2],"b":["b","a","c"]}`, `{"a":[{"a":3,"b":"x"},{"a":1,"b":"z"},{"a":2,"b":"y"}],"b":[[2,1],[1,2,0]]}`,
	`{"a":{"a":[3,2,1],"b":{"b":2,"a":1}},"b":{"c":3,"a":[0,-1]}}`, `{"a":"cba","b":"é😀a"}`, `{"a":[3,"a",null,[2,1],{"a":1}],"b":null}`,
	`[[[3,1,2]],[[2,1]]]`, `{"a":[2,1],"b":[1,2]}`, `{"a":[],"b":{}}`, `[{"a":[3,1,2]},{"a":[9,7,8]}]`, `{"a":1,"b":2}`, `null`,
	`{"a":[{"k":"b"},{"k":"a"},{"k":"c"}],"b":[{"k":2},{"k":"x"},{"k":1}]}`, `[1]`, `[2,1]`, `{"a":[true,false,null],"b":[1.5,-1,0]}`,
	// already in order (an "is it sorted already?" shortcut returns the caller's list itself)
	`[1,2,3]`, `{"a":[{"k":1,"t":3},{"k":2,"t":2},{"k":3,"t":1}],"b":["a","b","c"]}`, `[{"k":1,"t":2},{"k":2,"t":1}]`,
	// a list whose ONLY element is a list (a flatten with "nothing to concatenate" may hand back the inner list itself),
	// nulls that are not trailing (a "drop the nulls in place" shortcut shifts the rest)
	`[[3,1,2]]`, `{"a":[[{"k":2,"t":0},{"k":1,"t":1}]],"b":[[3,1,2]]}`, `[[{"k":1},{"k":2}]]`, `{"a":[[3,null,1]],"b":[null,[2,1]]}`, `[1,null,2,3]`, `{"a":[{"k":1},null,{"k":2},{"k":3}],"b":[null,"b","a"]}`,
	// lists of exactly one element (a "nothing to rearrange" shortcut returns the caller's list to a function that fills it)
	`{"a":[{"k":1,"t":"x","a":[2]}],"b":["b"]}`, `[{"k":9}]`,
	`[1,null,2]`, `{"a":[null,1,null,2],"b":[null]}`, `{"a":{},"b":{"k":1,"j":2}}`, `{"a":{"k":0},"b":{}}`, `{"a":[9,8,7,6,5,4,3,2,1,0,"x"],"b":[0,1,2,3,4,5,6,7,8,9,10,11]}`,
)

func c06Exprs(thorough bool) []string {
	seen := map[string]bool{}
	var out []string
	add := func(s string) {
		if !seen[s] {
			seen[s] = true
			out = append(out, s)
		}
	}
	// every built-in with every argument shape
	wf := 4
	if thorough {
		wf = 5
	}
	f := univ.FuncFragment(append(model.FunctionNames(), "nosuch"))
	f.Idents = univ.Tks("a", "b", "k")
	g := univ.NewGen(f)
	var calls []string
	for w := 1; w <= wf; w++ {
		for _, s := range g.Sentences(w) {
			t := model.Spell(g.Tokens(s), model.Tight)
			add(t)
			if w <= wf-1 && strings.Contains(t, "(") && !strings.Contains(t, "|") && !strings.Contains(t, "[") {
				calls = append(calls, t)
			}
		}
	}
	// calls with two arguments incl. expression references (weight 5) for the reordering functions
	for _, fn := range []string{"sort_by", "max_by", "min_by", "map", "merge", "contains", "join", "not_null"} {
		for _, a := range []string{"@", "a", "b", "a[0]", "`[3,1,2]`", "&@", "&a", "&k", "&b"} {
			for _, b := range []string{"@", "a", "b", "`[3,1,2]`", "&@", "&a", "&k", "&[0]", "&nosuch(@)"} {
				calls = append(calls, fn+"("+a+","+b+")")
			}
		}
	}
	// each call in contexts: projection RHS, filter condition, after a pipe, multi-select member,
	// expression-reference body, left of a failing call (error path)
	ctxs := []string{"%s", "@|%s", "[%s]", "{x:%s}", "[*].%s", "*.%s", "[?%s]", "a[*].%s", "map(&%s,@)", "map(&%s,a)", "[%s,abs(`\"x\"`)]", "%s|nosuch(@)", "[][%s]", "sort_by(@,&%s)",
		// the call as the left-hand side of projections, filters, indices (its result may alias the document)
		"%s[?@]", "%s[?@>`1`]", "%s[?k>`1`].k", "%s[?!a]", "%s[*]", "%s[]", "%s[1:]", "%s[0]", "%s.a", "%s|[?@>`1`]", "%s[?@>`1`].abs(@)"}
	for _, c := range calls {
		for _, ctx := range ctxs {
			add(strings.Replace(ctx, "%s", c, -1))
		}
	}
	// direct nestings of two calls (f(g(x))): a fast path keyed on the shape of the argument expression, or an
	// inner call that hands back its input uncopied (already sorted, single element) to an outer call that
	// works in place, only shows in the nesting, not in either call alone nor in the piped form
	for _, x := range []string{"@", "a", "b"} {
		for _, in := range []string{"sort(%s)", "sort_by(%s,&@)", "sort_by(%s,&k)", "reverse(%s)", "to_array(%s)", "not_null(%s)", "map(&@,%s)", "values(%s)", "keys(%s)", "merge(%s)", "%s[*]", "%s[]", "%s[?@]", "%s[:]"} {
			inner := strings.Replace(in, "%s", x, -1)
			for _, outer := range []string{"reverse(%s)", "sort(%s)", "to_array(%s)", "not_null(%s)", "sort_by(%s,&@)", "sort_by(%s,&k)", "sort_by(%s,&t)", "max_by(%s,&k)", "map(&@,%s)", "values(%s)", "%s[::-1]", "join(',',%s)", "merge(%s,%s)", "[%s,%s]"} {
				add(strings.Replace(outer, "%s", inner, -1))
			}
		}
	}
	// a combining call whose FIRST argument is itself a combining call or a multi-select (a temporary the outer call may
	// be tempted to fill in place - unless the inner call handed back one of its own arguments)
	for _, in := range []string{"merge(a,b)", "merge(b,a)", "merge(a,a)", "merge(a)", "merge(b)", "not_null(a,b)", "not_null(b)", "{x:a}", "{k:b}", "merge(a,b,a)", "to_array(a)[0]", "[a,b][0]", "[a][0]", "a||b", "b&&a"} {
		for _, rest := range []string{"@", "a", "b", "{z:`1`}", "a,b", "`{\"z\":1}`"} {
			add("merge(" + in + "," + rest + ")")
			add("merge(" + rest + "," + in + ")")
		}
		add("merge(" + in + ")")
		add("[*].merge(" + in + ",@)")
	}
	for _, fr := range []*univ.Fragment{univ.CoreFragment(), univ.ProjFragment()} {
		g := univ.NewGen(fr)
		for w := 1; w <= 4; w++ {
			for _, s := range g.Sentences(w) {
				add(model.Spell(g.Tokens(s), model.Tight))
			}
		}
	}
	return out
}

func workC06(c *shardCtx) {
	exprs := c06Exprs(c.thorough())
	docs := mutationDocs
	if c.thorough() {
		docs = append(append([]interface{}{}, docs...), univ.Values(1, 3, univ.Js(`3`, `1`, `"b"`, `"a"`), []string{"a", "b"})...)
	}
	// large arrays (>= 64 elements): pooling / recycling optimisations only kick in on big inputs
	big := func(n int) interface{} {
		objs := make([]interface{}, n)
		nums := make([]interface{}, n)
		for i := 0; i < n; i++ {
			objs[i] = map[string]interface{}{"a": float64((i * 37) % n), "b": fmt.Sprintf("s%d", (i*11)%n), "k": float64(i % 3)}
			nums[i] = float64((i * 53) % n)
		}
		return map[string]interface{}{"a": objs, "b": nums}
	}
	docs = append(append([]interface{}{}, docs...), big(64), big(70), big(130))
	globals := jmespath.VerifGlobals()
	// the documents live as long as the worker: every document ever searched is re-verified after every
	// expression, so a write that lands in a document searched EARLIER (recycled buffers) is seen too
	persist := make([]interface{}, len(docs))
	baseDig := make([]snap.Digest, len(docs))
	rebuild := func(i int) {
		persist[i] = spare(docs[i])
		baseDig[i] = snap.Roots{{Name: "doc", V: persist[i]}}.Hash()
	}
	for i := range docs {
		rebuild(i)
	}
	for ei, text := range exprs {
		if !c.mine(ei) {
			continue
		}
		c.journal("C06 expression " + text)
		jp, cerr, pn := impl.Compile(text)
		if pn != nil || cerr != nil {
			c.add("uncompilable", 1)
			continue
		}
		c.add("expressions", 1)
		for di, d := range docs {
			doc := persist[di]
			roots := snap.Roots{{Name: "doc", V: doc}}
			base := baseDig[di]
			var baseLines []string
			// per-statement monitor
			prev, writeAt, npoints := -1, -1, 0
			isBig := di >= len(docs)-3 // the large documents are compared before/after only (and re-verified later)
			jmespath.VerifPoint = func(id int) {
				npoints++
				if !isBig && writeAt < 0 && roots.Hash() != base {
					writeAt = prev
				}
				prev = id
			}
			gbase := snap.Roots{{Name: "globals", V: globals}, {Name: "expr", V: jp}}.Hash()
			_, serr, spn := impl.Search(jp, doc)
			jmespath.VerifPoint = nil
			changed := roots.Hash() != base
			if changed && writeAt < 0 {
				writeAt = prev
			}
			c.add("searches", 1)
			c.add("monitor_points", int64(npoints))
			if serr != nil || spn != nil {
				c.add("error_paths", 1)
			} else {
				c.add("success_paths", 1)
			}
			if writeAt >= 0 {
				baseLines = snap.Roots{{Name: "doc", V: spare(d)}}.Lines()
				site := "?"
				if writeAt < len(jmespath.VerifSites) {
					site = jmespath.VerifSites[writeAt]
				}
				kind := "doc-mutated"
				note := "document differs after the call"
				if !changed {
					note = "document was written during the call and restored before it returned"
				}
				c.report(harness.Violation{Kind: kind, Signature: "doc-write@" + site,
					Input:    map[string]interface{}{"expression": text, "document": shortDoc(d)},
					Expected: "no write to any part of the document", Site: site,
					Observed: note + "; first write by the statement at " + site + "; diff: " + strings.Join(snap.Diff(baseLines, roots.Lines()), "; "),
					GoTest:   fmt.Sprintf("func TestReplay(t *testing.T) {\n\tvar doc, before interface{}\n\tjson.Unmarshal([]byte(%q), &doc)\n\tjson.Unmarshal([]byte(%q), &before)\n\tjmespath.Search(%q, doc)\n\tif !reflect.DeepEqual(doc, before) { t.Fatalf(\"document modified: %%v\", doc) }\n}", model.Canon(shortDoc(d)), model.Canon(shortDoc(d)), text)})
				rebuild(di)
			}
			if g2 := (snap.Roots{{Name: "globals", V: globals}, {Name: "expr", V: jp}}).Hash(); g2 != gbase {
				c.add("library_state_writes", 1) // C12/C13's business; counted here
			}
			if ei%997 == 0 && len(c.res.Samples) < 2 {
				c.sample(map[string]interface{}{"expression": text, "document": shortDoc(d), "statement_points_monitored": npoints, "error_path": serr != nil})
			}
		}
		// every document searched so far must still be what it was (delayed writes)
		for di := range docs {
			if h := (snap.Roots{{Name: "doc", V: persist[di]}}).Hash(); h != baseDig[di] {
				before := snap.Roots{{Name: "doc", V: spare(docs[di])}}.Lines()
				after := snap.Roots{{Name: "doc", V: persist[di]}}.Lines()
				c.report(harness.Violation{Kind: "doc-mutated", Signature: "delayed-doc-write:" + text,
					Input:    map[string]interface{}{"expression": text, "document_index": di, "document": shortDoc(docs[di]), "note": "the document was intact when its own Search returned and was modified by a LATER Search of this expression on another document"},
					Expected: "a document is never written, also not after the call that received it has returned",
					Observed: "diff: " + strings.Join(snap.Diff(before, after), "; ")})
				rebuild(di)
			}
			c.add("delayed_verifications", 1)
		}
	}
	c.res.Notes["documents"] = len(docs)
	c.res.Notes["expression_universe"] = len(exprs)
}

// shortDoc abbreviates the large generated documents in reports.
func shortDoc(d interface{}) interface{} {
	if m, ok := d.(map[string]interface{}); ok {
		if a, ok := m["a"].([]interface{}); ok && len(a) >= 64 {
			return fmt.Sprintf("{\"a\": [%d objects {a,b,k}], \"b\": [%d numbers]} (generated, see cmd/vsched/c06.go)", len(a), len(a))
		}
	}
	return d
}

func finishC06(r *harness.Run, k map[string]int64, notes map[string]interface{}) harness.Coverage {
	r.Rule = "every built-in with every argument shape (fields, indices, array literals, expression references) up to the weight bound, each call bare and in 25 contexts (projection right-hand side, filter condition, after a pipe, multi-select member, expression-reference body, next to a failing call so that the error path is taken), plus the core and projection universes, x documents whose arrays are unsorted with >=3 elements, duplicates, nesting and two hidden elements of spare capacity. plus three documents with arrays of 64-130 elements. Oracle: a deep snapshot of the document (order-sensitive, up to capacity) is compared before the call, at EVERY statement of the instrumented library during the call, and after it; the documents live as long as the worker and ALL of them are re-verified after every expression, so a write that reaches a document after its own call has returned is seen as well. Non-trivial = every (expression, document) pair (each call is monitored on all its statements); distinct by (expression, document)"
	r.Assumptions = []string{"statement granularity: a write that is undone inside one statement is invisible", "documents are generic JSON values; typed documents are C18's"}
	r.Evaluations = k["searches"]
	r.Traces = k["searches"]
	r.States = k["monitor_points"]
	r.Transitions = k["monitor_points"]
	r.Nontrivial = k["searches"]
	r.Note("expressions", k["expressions"])
	r.Note("success_paths", k["success_paths"])
	r.Note("error_paths", k["error_paths"])
	r.Note("statement_points_monitored", k["monitor_points"])
	r.Note("library_state_writes_seen", k["library_state_writes"])
	for kk, v := range notes {
		r.Note(kk, v)
	}
	var d int64
	if k["success_paths"] > 0 {
		d++
	}
	if k["error_paths"] > 0 {
		d++
	}
	return harness.Coverage{Exhaustive: true, Bounds: map[string]interface{}{"function_fragment_weight": 4, "documents": notes["documents"]}, Outcomes: d}
}
