package main

import "encoding/json"

func jsonUnmarshal(s string, v interface{}) error { return json.Unmarshal([]byte(s), v) }
