package main

// Map-order exploration ("environment answers"): Go leaves the iteration order of a
// map unspecified, and the library ranges over maps for the object wildcard, keys(),
// values() and merge(). In the instrumented build every such range asks the harness
// for a permutation (VerifMapOrder). This pass treats each request as a choice point
// and explores the executions of ONE Search call depth-first: choice 0 (sorted order)
// by default, every other permutation as a deviation, up to a deviation bound (or
// without bound when the call makes few requests). On every execution the call must
// return (no panic) and its outcome must be one the reference model admits for SOME
// member order: "the same every time ... up to that unspecified order" (C13), and
// "never panics" whatever order the runtime happens to pick (C05).

import (
	"fmt"

	jmespath "github.com/jmespath/go-jmespath"

	"verif/harness"
	"verif/impl"
	"verif/model"
	"verif/univ"
)

type moPoint struct{ n, alts, choice int }

// moAlts: permutations offered for n keys: all n! for n <= 3; identity, reverse, the two
// rotations and the two end swaps for larger maps.
func moAlts(n int) int {
	switch {
	case n <= 1:
		return 1
	case n == 2:
		return 2
	case n == 3:
		return 6
	}
	return 6
}

func moPerm(n, c int) []int {
	p := make([]int, n)
	for i := range p {
		p[i] = i
	}
	if c == 0 {
		return p
	}
	if n <= 3 {
		// factorial number system
		rest := append([]int{}, p...)
		out := p[:0]
		for k := n; k > 0; k-- {
			f := 1
			for i := 2; i < k; i++ {
				f *= i
			}
			i := c / f
			c %= f
			out = append(out, rest[i])
			rest = append(rest[:i], rest[i+1:]...)
		}
		return out
	}
	switch c {
	case 1: // reverse
		for i, j := 0, n-1; i < j; i, j = i+1, j-1 {
			p[i], p[j] = p[j], p[i]
		}
	case 2: // rotate left
		for i := range p {
			p[i] = (i + 1) % n
		}
	case 3: // rotate right
		for i := range p {
			p[i] = (i + n - 1) % n
		}
	case 4:
		p[0], p[1] = p[1], p[0]
	case 5:
		p[n-1], p[n-2] = p[n-2], p[n-1]
	}
	return p
}

type moResult struct {
	execs, points, maxPoints int
	outcomes                 map[string]int
	capped, unbounded        bool
	diverged                 string // a replayed prefix met other requests than when it was recorded (state surviving between executions)
	bad                      string // first offending outcome
	badChoices               []int
}

// exploreMapOrders runs call under every sequence of map orders with at most bound deviations
// (bound < 0: no bound). admissible decides an outcome key.
func exploreMapOrders(bound, maxExecs int, call func() string, admissible func(key string) bool) moResult {
	res := moResult{outcomes: map[string]int{}, unbounded: bound < 0}
	run := func(prefix []int) []moPoint {
		var trace []moPoint
		i := 0
		jmespath.VerifMapOrder = func(n int) []int {
			c := 0
			if i < len(prefix) {
				c = prefix[i]
			}
			a := moAlts(n)
			if c >= a {
				if res.diverged == "" {
					res.diverged = fmt.Sprintf("choice %d of %d at request %d", c, a, i)
				}
				c = 0
			}
			trace = append(trace, moPoint{n, a, c})
			i++
			if c == 0 {
				return nil
			}
			return moPerm(n, c)
		}
		key := call()
		jmespath.VerifMapOrder = nil
		if i < len(prefix) && res.diverged == "" {
			res.diverged = fmt.Sprintf("only %d of %d recorded requests were made", i, len(prefix))
		}
		res.execs++
		res.points += len(trace)
		if len(trace) > res.maxPoints {
			res.maxPoints = len(trace)
		}
		res.outcomes[key]++
		if res.bad == "" && !admissible(key) {
			res.bad = key
			res.badChoices = append([]int{}, prefix...)
		}
		return trace
	}
	var rec func(prefix []int, devs int)
	rec = func(prefix []int, devs int) {
		if res.execs >= maxExecs {
			res.capped = true
			return
		}
		trace := run(prefix)
		if res.diverged != "" {
			return // not a function of the order choices alone: inconclusive, the caller reports it as such
		}
		if bound >= 0 && devs >= bound {
			return
		}
		for i := len(prefix); i < len(trace); i++ {
			for alt := 1; alt < trace[i].alts; alt++ {
				np := make([]int, i+1)
				copy(np, prefix)
				np[i] = alt
				rec(np, devs+1)
				if res.capped || res.diverged != "" {
					return
				}
			}
		}
	}
	rec(nil, 0)
	return res
}

// order-dependent expressions: strong oracle (outcome must be admitted by the model for some order)
var moStrong = []string{
	"*", "a.*", "keys(@)", "values(@)", "keys(a)", "values(a)", "(*)[0]", "values(@)[0]", "keys(@)[0]", "keys(@)[-1]", "*.a", "*.*", "[*, *]",
	"{k: keys(@), v: values(@)}", "join(',', keys(@))", "sort(keys(@))", "length(keys(@))", "merge(@, a)", "merge(a, b)", "keys(merge(a, b))", "values(merge(a, b))",
	"to_array(*)", "[*].*", "[*].keys(@)", "[*].values(@)[0]", "*.keys(@)", "max(values(@))", "sort(values(@))", "values(@) | [0]", "* | [0]", "not_null(*)",
	"reverse(keys(@))", "contains(keys(@), 'a')", "keys(@) == `[\"a\",\"b\"]`", "(*)[0] == a", "*[?@ > `1`]", "map(&keys(@)[0], @)", "map(&values(@)[0], @)", "map(&(*)[0], @)",
	"[*].*.a", "*.a | [0]", "* | [-1]", "values(@)[::-1]", "(*)[1:]", "length(*)", "[keys(@), keys(@)]", "keys(@)[0] == keys(@)[0]", "type(values(@)[0])", "[*].*[]", "*[]", "a.* | [0]",
	"sum(values(@))", "avg(values(a))", "min(values(@))", "join('', values(@))", "starts_with(keys(@)[0], 'a')", "to_string(keys(@))", "[*].to_string(keys(@)[0])", "sort_by(values(@), &@)", "max_by(values(@), &@)",
	"sort_by(@, &a)[*].keys(@)[0]", "merge(@, @)", "merge(`{\"a\":0}`, @)", "keys(@)[0] || 'none'", "[?keys(@)[0] == 'a']", "[?values(@)[0] == `1`].t",
}

// the key expression of a by-function is evaluated several times per element by the implementation
// (once per comparison); with an order-dependent key the orders seen need not be consistent with any
// single evaluation, so only "returns, and returns an array / element / error" is judged (gap G9)
var moWeak = []string{
	"sort_by(@, &values(@)[0])", "max_by(@, &(*)[0])", "min_by(@, &keys(@)[0])", "sort_by(@, &(*)[0])[*].t", "sort_by(@, &keys(@)[-1])", "max_by(@, &values(@)[-1]).t",
	"sort_by(@, &length(keys(@)))", "sort_by(a.*, &@)", "map(&sort_by(@, &values(@)[0]), [@])",
}

var moDocs = []string{
	`{"a":1,"b":2}`, `{"a":1,"b":"x"}`, `{"a":{"a":1,"b":2},"b":{"c":3}}`, `{"b":[1],"a":[2,3],"c":null}`, `[{"a":1,"b":"x"},{"a":2,"b":"y"}]`,
	`[{"a":1,"b":"x","t":0},{"a":"y","b":2,"t":1},{"a":3,"b":"z","t":2}]`, `{"a":{"x":1},"b":{"x":2,"y":3}}`, `{}`, `{"a":1}`, `[{"a":2,"b":1},{"b":3,"a":0}]`,
	`{"a":"p","b":"q","c":"r"}`, `{"a":{"b":1,"a":"s"},"b":{"a":2}}`, `[{"b":1,"a":1},{"a":1,"b":1}]`, `{"d":4,"c":3,"b":2,"a":1}`,
}

// mapOrderPass: panicsOnly = the C05 variant (only "returns" is judged).
func mapOrderPass(c *shardCtx, prop string, panicsOnly bool) {
	bound, unboundedBelow := 2, 6
	if c.thorough() {
		bound, unboundedBelow = 3, 9
	}
	type ex struct {
		text string
		weak bool
	}
	var exprs []ex
	for _, t := range moStrong {
		exprs = append(exprs, ex{t, false})
	}
	for _, t := range moWeak {
		exprs = append(exprs, ex{t, true})
	}
	// every sentence of the projection fragment up to weight 4 (thorough 5) that contains an object wildcard
	seenText := map[string]bool{}
	for _, e := range exprs {
		seenText[e.text] = true
	}
	pw := 4
	if c.thorough() {
		pw = 5
	}
	pg := univ.NewGen(univ.ProjFragment())
	for w := 1; w <= pw; w++ {
		for _, snt := range pg.Sentences(w) {
			toks := pg.Tokens(snt)
			star := false
			for i, t := range toks {
				if t.Kind == model.STAR && !(i > 0 && toks[i-1].Kind == model.LBRACKET && i+1 < len(toks) && toks[i+1].Kind == model.RBRACKET) {
					star = true
				}
			}
			if star {
				// sentences whose grouping differs between the canonical and the de-facto reading of "X.*" are the
				// domain of a recorded known finding (judged, by cause, in C02/C03): not re-judged here
				a1, _, e1 := model.Parse(toks)
				a2, _, e2 := model.ParseDeFacto(toks)
				if e1 != nil || e2 != nil || model.Render(a1) != model.Render(a2) {
					continue
				}
			}
			if t := model.Spell(toks, model.Tight); star && !seenText[t] {
				seenText[t] = true
				exprs = append(exprs, ex{t, false})
			}
		}
	}
	var docs []interface{}
	for _, d := range moDocs {
		docs = append(docs, univJ(d))
	}
	for ei, e := range exprs {
		if !c.mine(ei) {
			continue
		}
		c.journal(prop + " map orders " + e.text)
		toks, lerr := model.Lex(e.text)
		if lerr != nil {
			harness.Fatal("map-order pass: model lexer rejects %q", e.text)
		}
		ast, _, perr := model.Parse(toks)
		if perr != nil {
			harness.Fatal("map-order pass: model parser rejects %q", e.text)
		}
		jp, cerr, pn := impl.Compile(e.text)
		if cerr != nil || pn != nil {
			continue // reported by the conformance checks
		}
		for di, d := range docs {
			outs := model.Outcomes(ast, d, nil)
			adm := map[string]bool{}
			anyErr, anyGap := false, false
			for _, o := range outs {
				switch o.Err {
				case nil:
					adm["V:"+model.Canon(o.Val)] = true
				case model.ErrGap:
					anyGap = true
				default:
					anyErr = true
				}
			}
			var last interface{}
			call := func() string {
				// a fresh compiled expression per execution: whatever a compiled expression memoises must not make
				// one execution depend on the previous one
				jpx, cerrx, pnx := impl.Compile(e.text)
				if cerrx != nil || pnx != nil {
					jpx = jp
				}
				res, serr, pn := impl.Search(jpx, model.Copy(d))
				last = res
				switch {
				case pn != nil:
					return "P:" + pn.Site + ":" + pn.Class
				case serr != nil:
					return "E"
				}
				return "V:" + model.Canon(res)
			}
			admissible := func(key string) bool {
				if key[0] == 'P' {
					return false
				}
				if panicsOnly || e.weak || anyGap {
					return true
				}
				if key == "E" {
					return anyErr
				}
				if adm[key] {
					return true
				}
				for _, o := range outs {
					if o.Err == nil && model.Match(last, o.Val) { // to_string results are judged by decoding back
						return true
					}
				}
				return false
			}
			// iterate the deviation bound: 1, 2, (3); a larger bound is attempted only when the previous one needed
			// few executions, so no execution cap is ever hit and the bound completed is known per pair; calls that
			// make few order requests are then explored without any bound
			call() // warm-up outside the exploration: lazily initialised package-level state is built now
			var r moResult
			completed := 0
			for b := 1; b <= bound; b++ {
				rb := exploreMapOrders(b, 200000, call, admissible)
				rb.execs += r.execs
				rb.points += r.points
				r = rb
				completed = b
				if r.bad != "" || rb.capped || rb.diverged != "" || rb.execs > 4000 {
					break
				}
			}
			if r.diverged != "" {
				// state that survives between executions (a process-wide cache, a pool) makes a replayed prefix meet other
				// requests: a limit of stateless exploration, not a violation; the pair is reported as not explored
				c.add("maporder_pairs_inconclusive", 1)
				c.res.Capped = "map-order replay diverged for at least one pair (state surviving between executions): not explored exhaustively - " + r.diverged
			} else if r.bad == "" && !r.capped && r.maxPoints > 0 && r.maxPoints <= unboundedBelow {
				r2 := exploreMapOrders(-1, 200000, call, admissible)
				r2.execs += r.execs
				r2.points += r.points
				r = r2
				c.add("maporder_pairs_explored_without_bound", 1)
			} else {
				c.add(fmt.Sprintf("maporder_pairs_completed_at_bound_%d", completed), 1)
			}
			c.add("maporder_pairs", 1)
			c.add("maporder_executions", int64(r.execs))
			c.add("maporder_requests", int64(r.points))
			c.add("maporder_distinct_outcomes", int64(len(r.outcomes)))
			if len(r.outcomes) > 1 {
				c.add("maporder_pairs_with_several_outcomes", 1)
			}
			if r.capped {
				c.res.Capped = "map-order exploration hit the cap of 200000 executions for a pair"
			}
			if r.bad != "" {
				kind, sig := "wrong-value", "map-order-outcome:"+e.text
				if r.bad[0] == 'P' {
					kind, sig = "panic", "map-order-panic:"+r.bad[2:]
				}
				c.report(harness.Violation{Kind: kind, Signature: sig,
					Input:    map[string]interface{}{"expression": e.text, "document": moDocs[di], "map_order_choices": r.badChoices, "note": "choice k at the i-th map iteration of the call: 0 = sorted member order, k > 0 = the k-th other permutation"},
					Expected: "for every member order: the call returns, with one of " + fmt.Sprint(len(outs)) + " outcomes the specification admits",
					Observed: r.bad})
			}
			if ei%17 == 0 && di == 1 {
				c.sample(map[string]interface{}{"expression": e.text, "document": moDocs[di], "order_requests_per_call": r.maxPoints, "executions": r.execs, "distinct_outcomes": len(r.outcomes), "deviation_bound": bound})
			}
		}
	}
	c.res.Notes["maporder_expressions"] = len(exprs)
	c.res.Notes["maporder_documents"] = len(docs)
	c.res.Notes["maporder_deviation_bound"] = bound
}
