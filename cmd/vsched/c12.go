package main

import (
	"fmt"
	"strings"

	jmespath "github.com/jmespath/go-jmespath"

	"verif/harness"
	"verif/impl"
	"verif/model"
	"verif/snap"
	"verif/vsched"
)

func init() {
	workers["C12"] = workC12
	finishers["C12"] = finishC12
}

func bigConcDoc() string {
	var b strings.Builder
	b.WriteString(`{"a":[`)
	for i := 0; i < 40; i++ {
		if i > 0 {
			b.WriteString(",")
		}
		fmt.Fprintf(&b, `{"k":%d,"t":%d}`, (i*7)%40, i)
	}
	b.WriteString(`],"b":["b","a","c"]}`)
	return b.String()
}

var concDocs = []string{
	`{"a":[{"k":2,"t":0},{"k":1,"t":1},{"k":3,"t":2}],"b":["b","a","c"]}`,
	`{"a":[3,1,2],"b":[2,1]}`,
	`[3,1,2]`,
	`[{"k":"b"},{"k":"a"},{"k":"c"}]`,
	// empty containers as operands (an "empty, so reuse it" shortcut writes into the shared value)
	`{"a":{},"b":{"x":1,"y":[2]},"c":[]}`,
}

// scenario state, rebuilt for every execution
type scState struct {
	jp     *jmespath.JMESPath
	docs   []interface{}
	shared snap.Roots
}

type scenario struct {
	name  string
	expr  string
	build func() (*scState, []func() interface{})
	nThr  int
}

func jdoc(i int) interface{} { return spare(univJ(concDocs[i%len(concDocs)])) }

func univJ(s string) interface{} {
	var v interface{}
	if err := jsonUnmarshal(s, &v); err != nil {
		panic(err)
	}
	return v
}

func searchBody(jp *jmespath.JMESPath, doc interface{}) func() interface{} {
	return func() interface{} {
		res, err, pn := impl.Search(jp, doc)
		return resKey(res, err, pn)
	}
}

func makeScenarios(expr string, n int, docIdx int) []scenario {
	globals := jmespath.VerifGlobals()
	compile := func() *jmespath.JMESPath {
		jp, err, pn := impl.Compile(expr)
		if err != nil || pn != nil {
			return nil
		}
		return jp
	}
	var out []scenario
	// S1: same compiled expression, same document object
	out = append(out, scenario{"S1 same expression, same document", expr, func() (*scState, []func() interface{}) {
		st := &scState{jp: compile()}
		d := jdoc(docIdx)
		st.docs = []interface{}{d}
		st.shared = snap.Roots{{Name: "expr", V: st.jp}, {Name: "globals", V: globals}, {Name: "doc", V: d}}
		var bodies []func() interface{}
		for i := 0; i < n; i++ {
			bodies = append(bodies, searchBody(st.jp, d))
		}
		return st, bodies
	}, n})
	// S2: same compiled expression, different documents
	out = append(out, scenario{"S2 same expression, different documents", expr, func() (*scState, []func() interface{}) {
		st := &scState{jp: compile()}
		st.shared = snap.Roots{{Name: "expr", V: st.jp}, {Name: "globals", V: globals}}
		var bodies []func() interface{}
		for i := 0; i < n; i++ {
			d := jdoc(docIdx + i)
			st.docs = append(st.docs, d)
			bodies = append(bodies, searchBody(st.jp, d))
		}
		return st, bodies
	}, n})
	// S3: one-shot Search on a shared document
	out = append(out, scenario{"S3 one-shot Search, shared document", expr, func() (*scState, []func() interface{}) {
		st := &scState{}
		d := jdoc(docIdx)
		st.docs = []interface{}{d}
		st.shared = snap.Roots{{Name: "globals", V: globals}, {Name: "doc", V: d}}
		var bodies []func() interface{}
		for i := 0; i < n; i++ {
			bodies = append(bodies, func() interface{} {
				res, err, pn := impl.SearchOnce(expr, d)
				return resKey(res, err, pn)
			})
		}
		return st, bodies
	}, n})
	// S7: the compiled expression has a past (it was searched on every document, incl. failing ones,
	// and on a 40-element document) before the threads use it concurrently
	out = append(out, scenario{"S7 same expression after earlier (also failing) searches, different documents", expr, func() (*scState, []func() interface{}) {
		st := &scState{jp: compile()}
		for i := range concDocs {
			impl.Search(st.jp, jdoc(i))
		}
		impl.Search(st.jp, "not a container")
		impl.Search(st.jp, spare(univJ(`{"a":{"x":"s","y":1,"z":[1]},"b":"s"}`)))
		st.shared = snap.Roots{{Name: "expr", V: st.jp}, {Name: "globals", V: globals}}
		var bodies []func() interface{}
		for i := 0; i < n; i++ {
			d := jdoc(docIdx + i)
			st.docs = append(st.docs, d)
			bodies = append(bodies, searchBody(st.jp, d))
		}
		return st, bodies
	}, n})
	// S7b: the same, on objects whose members are all numbers (value projections with calls succeed there)
	out = append(out, scenario{"S7b same expression after earlier (also failing) searches, numeric-member objects", expr, func() (*scState, []func() interface{}) {
		st := &scState{jp: compile()}
		impl.Search(st.jp, spare(univJ(`{"p":"s","q":1,"r":[1],"s":null}`)))
		impl.Search(st.jp, spare(univJ(`{"p":1,"q":2,"r":3}`)))
		st.shared = snap.Roots{{Name: "expr", V: st.jp}, {Name: "globals", V: globals}}
		var bodies []func() interface{}
		for i := 0; i < n; i++ {
			d := spare(univJ([]string{`{"p":1,"q":-2,"r":3}`, `{"p":-4,"q":5,"r":-6}`, `{"p":7,"q":8,"r":-9}`}[i%3]))
			st.docs = append(st.docs, d)
			bodies = append(bodies, searchBody(st.jp, d))
		}
		return st, bodies
	}, n})
	// S4: Compile racing with Search
	out = append(out, scenario{"S4 Compile racing with Search", expr, func() (*scState, []func() interface{}) {
		st := &scState{jp: compile()}
		d := jdoc(docIdx)
		st.docs = []interface{}{d}
		st.shared = snap.Roots{{Name: "expr", V: st.jp}, {Name: "globals", V: globals}, {Name: "doc", V: d}}
		bodies := []func() interface{}{
			searchBody(st.jp, d),
			func() interface{} {
				jp, err, pn := impl.Compile(expr)
				if pn != nil {
					return "PANIC " + pn.Site
				}
				if err != nil {
					return "COMPILE-ERROR"
				}
				return "COMPILED " + impl.Render(jp)
			},
		}
		return st, bodies
	}, 2})
	return out
}

// Go-typed documents (two layouts of the same field names) for the struct scenarios.
type rowA struct {
	ID   float64
	Name string
	Note string
}
type rowB struct {
	Note string
	ID   float64
	Name string
	Tags []string
}
type tableA struct {
	Name string
	Rows []rowA
}
type tableB struct {
	Rows []*rowB
	Name string
}

func structDoc(i int) interface{} {
	if i%2 == 0 {
		return tableA{"ta", []rowA{{1, "a1", "n1"}, {2, "a2", "n2"}, {3, "a3", "n3"}}}
	}
	return &tableB{[]*rowB{{"m1", 1, "b1", []string{"x"}}, {"m2", 2, "b2", nil}, nil}, "tb"}
}

var structExprs = []string{"rows[*].[id, name, note]", "rows[*].name", "rows[0].note", "name", "rows[?id > `1`].name", "length(rows)", "rows[].note", "rows[-1]", "{n: name, r: rows[*].id}", "rows[*].tags[]"}

// makeStructScenarios: one compiled expression searched by the threads on Go struct documents of two
// different layouts (reflection paths, per-type caches).
func makeStructScenarios(expr string, n int) []scenario {
	globals := jmespath.VerifGlobals()
	compile := func() *jmespath.JMESPath {
		jp, err, pn := impl.Compile(expr)
		if err != nil || pn != nil {
			return nil
		}
		return jp
	}
	var out []scenario
	out = append(out, scenario{"S5 same expression, struct documents of different types", expr, func() (*scState, []func() interface{}) {
		st := &scState{jp: compile()}
		st.shared = snap.Roots{{Name: "expr", V: st.jp}, {Name: "globals", V: globals}}
		var bodies []func() interface{}
		for i := 0; i < n; i++ {
			d := structDoc(i)
			st.docs = append(st.docs, d)
			bodies = append(bodies, searchBody(st.jp, d))
		}
		return st, bodies
	}, n})
	out = append(out, scenario{"S6 same expression, same struct document", expr, func() (*scState, []func() interface{}) {
		st := &scState{jp: compile()}
		d := structDoc(1)
		st.docs = []interface{}{d}
		st.shared = snap.Roots{{Name: "expr", V: st.jp}, {Name: "globals", V: globals}, {Name: "doc", V: d}}
		var bodies []func() interface{}
		for i := 0; i < n; i++ {
			bodies = append(bodies, searchBody(st.jp, d))
		}
		return st, bodies
	}, n})
	return out
}

type soloInfo struct {
	result  string
	writes  []string // unsynchronised writes: "site: diff"
	locked  int      // writes made while holding a shim lock / in an atomic statement
	points  int
	syncOps int
}

func configureHooks(s *vsched.Sched) {
	jmespath.VerifPoint = s.Point
	jmespath.VerifBlock = s.Block
	jmespath.VerifWake = s.Wake
	jmespath.VerifSync = s.Sync
	jmespath.VerifGo = s.Go
}

func clearHooks() {
	jmespath.VerifPoint = nil
	jmespath.VerifBlock = nil
	jmespath.VerifWake = nil
	jmespath.VerifSync = nil
	jmespath.VerifGo = nil
}

// solo runs body i of a scenario alone under the write monitor.
func solo(sc *scenario, i int) soloInfo {
	jmespath.VerifResetPools() // every execution starts like a fresh process (pools empty)
	st, bodies := sc.build()
	info := soloInfo{}
	base := st.shared.Hash()
	var baseLines []string
	cur := base
	prev := -1
	prevLocks := 0
	x := vsched.Run([]func() interface{}{bodies[i]}, nil, func(s *vsched.Sched) {
		configureHooks(s)
		s.OnPoint = func(thread, id int) {
			info.points++
			h := st.shared.Hash()
			if h != cur {
				cur = h
				// the write was made by the statement at the previous point: it was synchronised if an exclusive
				// lock was held when that statement STARTED (a deferred Unlock runs after the last statement of a
				// function and before the next point) or is held now (the statement itself took the lock)
				if prevLocks > 0 || s.ExclusiveLocksHeld() > 0 || (prev >= 0 && jmespath.VerifAtomicPoints[prev]) {
					info.locked++
				} else if len(info.writes) < 3 {
					if baseLines == nil {
						saved := jmespath.VerifPoint
						jmespath.VerifPoint = nil // building the reference state must not re-enter the monitor
						st0, _ := sc.build()
						baseLines = st0.shared.Lines()
						jmespath.VerifPoint = saved
					}
					site := "?"
					if prev >= 0 && prev < len(jmespath.VerifSites) {
						site = jmespath.VerifSites[prev]
					}
					info.writes = append(info.writes, site+": "+strings.Join(snap.Diff(baseLines, st.shared.Lines()), "; "))
				}
			}
			prev = id
			prevLocks = s.ExclusiveLocksHeld()
		}
	})
	clearHooks()
	if h := st.shared.Hash(); h != cur && prevLocks > 0 {
		info.locked++ // the last statement of the body wrote under a lock released by a deferred Unlock
	} else if h != cur && len(info.writes) < 3 {
		site := "?"
		if prev >= 0 && prev < len(jmespath.VerifSites) {
			site = jmespath.VerifSites[prev]
		}
		info.writes = append(info.writes, site+": (state differs after the call returned)")
	}
	info.syncOps = x.SyncOps
	if t := x.Threads[0]; t.Panic != nil {
		info.result = fmt.Sprint("PANIC ", t.Panic)
	} else {
		info.result, _ = t.Result.(string)
	}
	return info
}

// firstUse: the very first library calls of this (fresh) worker process are made inside monitored
// threads, so that lazily initialised package-level state is written while the monitor watches.
func firstUse(c *shardCtx) {
	exprs := []string{"sort_by(a, &k)[0].k", "a[*].k | [0]", "length(@)", "a[?k > `1`].t", "*.a", "`[1, 2]`[0]", "'raw' || a", "a.b.c", "{x: a, y: b}", "[a, b][]", "a[::-1]", "!a && b", "to_string(@)", "max_by(a, &k)", "keys(@)", "\"q\".a"}
	expr := exprs[c.shard%len(exprs)]
	globals := jmespath.VerifGlobals()
	sc := scenario{"S0 first library calls of the process (Compile + Search) in two threads", expr, func() (*scState, []func() interface{}) {
		st := &scState{}
		d := jdoc(0)
		st.docs = []interface{}{d}
		st.shared = snap.Roots{{Name: "globals", V: globals}, {Name: "doc", V: d}}
		body := func() interface{} {
			jp, err, pn := impl.Compile(expr)
			if pn != nil || err != nil {
				return "COMPILE-FAILED"
			}
			res, serr, spn := impl.Search(jp, d)
			return resKey(res, serr, spn)
		}
		return st, []func() interface{}{body, body}
	}, 2}
	c.add("scenarios", 1)
	info := solo(&sc, 0)
	c.add("solo_runs", 1)
	c.add("monitor_points", int64(info.points))
	if len(info.writes) > 0 {
		w := info.writes[0]
		site := w[:strings.Index(w, ": ")]
		c.report(harness.Violation{Kind: "race", Signature: "unsynchronised-shared-write@" + site,
			Input:    map[string]interface{}{"expression": expr, "scenario": sc.name},
			Expected: "package-level state is initialised before use or under synchronisation",
			Observed: "the first Compile/Search of the process writes package-level state without synchronisation (two goroutines making their first calls race on it): " + strings.Join(info.writes, " | "), Site: site})
	} else if info.locked == 0 && info.syncOps == 0 {
		c.add("scenarios_decided_by_reduction", 1)
	}
}

// largeDoc: scenarios on a 40-element document (size-gated optimisations); decided by the solo write
// monitor only (the interleaving space of a 40-element projection is not explored).
func largeDoc(c *shardCtx) {
	exprs := []string{"a[?k >= `0`]", "a[?k >= `0`].t", "a[*].k", "sort_by(a, &k)[0].t", "a[::-1][0]", "a[].t", "max_by(a, &k).t", "map(&k, a)", "a[?k > `100`]", "length(a)", "a[*].[k, t]", "*", "sum(a[*].k)", "sort(a[*].k)", "a[1:30:2]", "reverse(a)[0]"}
	expr := exprs[c.shard%len(exprs)]
	globals := jmespath.VerifGlobals()
	sc := scenario{"S8 same expression, same 40-element document", expr, func() (*scState, []func() interface{}) {
		jp, _, _ := impl.Compile(expr)
		st := &scState{jp: jp}
		d := spare(univJ(bigConcDoc()))
		st.docs = []interface{}{d}
		st.shared = snap.Roots{{Name: "expr", V: st.jp}, {Name: "globals", V: globals}, {Name: "doc", V: d}}
		return st, []func() interface{}{searchBody(st.jp, d), searchBody(st.jp, d)}
	}, 2}
	c.add("scenarios", 1)
	info := solo(&sc, 0)
	c.add("solo_runs", 1)
	c.add("monitor_points", int64(info.points))
	if len(info.writes) > 0 {
		w := info.writes[0]
		site := w[:strings.Index(w, ": ")]
		c.report(harness.Violation{Kind: "race", Signature: "unsynchronised-shared-write@" + site,
			Input:    map[string]interface{}{"expression": expr, "scenario": sc.name},
			Expected: "a call only reads the compiled expression, package-level state and shared documents",
			Observed: "a single call on a 40-element document writes shared state without synchronisation: " + strings.Join(info.writes, " | "), Site: site})
	} else if info.locked == 0 && info.syncOps == 0 {
		c.add("scenarios_decided_by_reduction", 1)
	}
}

func workC12(c *shardCtx) {
	firstUse(c) // must come before any other library call of this process
	largeDoc(c)
	wf := 3
	if c.thorough() {
		wf = 4
	}
	exprs := scenarioExprsW(c.thorough(), wf)
	curated := curatedCount // (the constant-operand expressions that follow them are explored like generated ones)
	// the hand-written head of the list (literals in the AST, reordering functions)
	nThreads := 2
	maxPre := 0
	defer func() { c.res.Notes["max_preemptions_in_a_schedule"] = maxPre }()
	for ei, text := range exprs {
		if !c.mine(ei) {
			continue
		}
		if jp, err, pn := impl.Compile(text); jp == nil || err != nil || pn != nil {
			continue
		}
		c.add("expressions", 1)
		c.journal("C12 expression " + text)
		dfs := ei < curated || (ei/c.shards)%8 == 0 || (c.thorough() && (ei/c.shards)%3 == 0)
		n := nThreads
		if c.thorough() && ei < 12 && ei%3 == 0 {
			n = 3
		}
		scs := makeScenarios(text, n, ei)
		if ei < len(structExprs) {
			// the first shards-worth of indices also carry the struct-document scenarios
			scs = append(scs, makeStructScenarios(structExprs[ei], 2)...)
		}
		for _, sc := range scs {
			sc := sc
			c.add("scenarios", 1)
			// (1) solo monitor runs
			solos := make([]soloInfo, sc.nThr)
			clean := true
			for i := 0; i < sc.nThr; i++ {
				solos[i] = solo(&sc, i)
				c.add("solo_runs", 1)
				c.add("monitor_points", int64(solos[i].points))
				if len(solos[i].writes) > 0 || solos[i].locked > 0 || solos[i].syncOps > 0 {
					clean = false
				}
				if len(solos[i].writes) > 0 {
					w := solos[i].writes[0]
					site := w[:strings.Index(w, ": ")]
					c.report(harness.Violation{Kind: "race", Signature: "unsynchronised-shared-write@" + site,
						Input:    map[string]interface{}{"expression": text, "scenario": sc.name, "thread_body": i, "document": concDocs[ei%len(concDocs)]},
						Expected: "a call only reads the compiled expression, package-level state and documents shared with other goroutines",
						Observed: "a single call writes shared state without synchronisation (two concurrent calls race on it): " + strings.Join(solos[i].writes, " | "), Site: site})
				}
			}
			if clean {
				c.add("scenarios_decided_by_reduction", 1)
			} else {
				c.add("scenarios_with_shared_writes_or_sync", 1)
			}
			if !dfs && clean {
				continue
			}
			// (2) bounded DFS over interleavings: every thread must get its solo result, shared state unchanged
			want := make([]string, sc.nThr)
			for i := range want {
				want[i] = solos[i].result
			}
			var st *scState
			// thorough: preemption bound 2 for the first 24 hand-written expressions in the scenarios that share
			// the compiled expression between identical bodies (S1, S2); bound 1 everywhere else
			bound := 1
			if c.thorough() && ei < 24 && n == 2 && (strings.HasPrefix(sc.name, "S1") || strings.HasPrefix(sc.name, "S2")) {
				bound = 2
			}
			ex := &vsched.Explorer{Bound: bound, MaxExecs: 200000}
			var base snap.Digest
			ex.NewRun = func() ([]func() interface{}, func(*vsched.Sched), func(*vsched.Exec) string) {
				var bodies []func() interface{}
				jmespath.VerifResetPools() // pools are emptied so that a replayed prefix meets the same objects
				st, bodies = sc.build()
				base = st.shared.Hash()
				return bodies, configureHooks, func(x *vsched.Exec) string {
					clearHooks()
					key := ""
					for i, t := range x.Threads {
						got, _ := t.Result.(string)
						if t.Panic != nil {
							got = fmt.Sprint("PANIC ", t.Panic)
						}
						key += got + "|"
						if i < len(want) && got != want[i] {
							return fmt.Sprintf("thread %d got %s but the same call alone gives %s", i, got, want[i])
						}
					}
					ex.Outcomes[key]++
					if clean && st.shared.Hash() != base {
						return "shared state differs after the interleaved run"
					}
					return ""
				}
			}
			func() {
				defer func() {
					if r := recover(); r != nil {
						clearHooks()
						if d, ok := r.(vsched.ErrDiverged); ok {
							// the scenario is not a function of the schedule alone: state that survives between
							// executions (a sync.Pool, a process-wide cache) makes a replayed prefix take another
							// path. That is a limit of the explorer, not a violation: the scenario keeps its solo
							// monitor verdict and the race companion, and the run is reported as not exhaustive.
							c.add("nondeterministic_scenarios", 1)
							c.res.Capped = "schedule replay diverged for at least one scenario (state surviving between executions, e.g. a sync.Pool): its interleavings were not explored exhaustively — " + d.Msg
							return
						}
						c.report(harness.Violation{Kind: "hang", Signature: "explorer-error:" + fmt.Sprint(r),
							Input: map[string]interface{}{"expression": text, "scenario": sc.name}, Expected: "every execution terminates", Observed: fmt.Sprint(r)})
					}
				}()
				ex.Explore()
			}()
			clearHooks()
			c.add("schedules", ex.Execs)
			c.add("thread_steps", ex.Steps)
			c.add("dfs_scenarios", 1)
			c.add("distinct_outcomes", int64(len(ex.Outcomes)))
			if ex.Capped {
				c.res.Capped = "schedule cap of 200000 executions hit for a scenario"
			}
			if ex.Preemptions > maxPre {
				maxPre = ex.Preemptions
			}
			if ex.Failure != "" {
				c.report(harness.Violation{Kind: "wrong-value", Signature: "interleaving-changes-result:" + text + ":" + sc.name[:2],
					Input:    map[string]interface{}{"expression": text, "scenario": sc.name, "schedule": ex.FailChoices, "document": concDocs[ei%len(concDocs)]},
					Expected: "every call returns what it returns when made alone", Observed: ex.Failure + fmt.Sprintf(" (schedule of %d choices, reproduced 3 times)", len(ex.FailChoices))})
			}
			if ei%211 == 0 {
				c.sample(map[string]interface{}{"expression": text, "scenario": sc.name, "threads": sc.nThr, "preemption_bound": bound, "schedules": ex.Execs, "solo_points": solos[0].points, "distinct_outcomes": len(ex.Outcomes)})
			}
		}
		// the other documents: whether a call writes shared state can depend on the data (string keys vs number
		// keys, already sorted or not). The solo write monitor of scenario S1 is run on every other document for
		// the expressions that can reorder or hand back their input; by the reduction theorem a clean solo run
		// decides all interleavings of that scenario.
		if ei < curated || docSensitive(text) {
			for dv := 1; dv < len(concDocs); dv++ {
				sc := makeScenarios(text, 2, ei+dv)[0]
				c.add("scenarios", 1)
				c.add("other_document_scenarios", 1)
				si := solo(&sc, 0)
				c.add("solo_runs", 1)
				c.add("monitor_points", int64(si.points))
				if len(si.writes) > 0 {
					w := si.writes[0]
					site := w[:strings.Index(w, ": ")]
					c.report(harness.Violation{Kind: "race", Signature: "unsynchronised-shared-write@" + site,
						Input:    map[string]interface{}{"expression": text, "scenario": sc.name, "thread_body": 0, "document": concDocs[(ei+dv)%len(concDocs)]},
						Expected: "a call only reads the compiled expression, package-level state and documents shared with other goroutines",
						Observed: "a single call writes shared state without synchronisation (two concurrent calls race on it): " + strings.Join(si.writes, " | "), Site: site})
					c.add("scenarios_with_shared_writes_or_sync", 1)
				} else if si.locked == 0 && si.syncOps == 0 {
					c.add("scenarios_decided_by_reduction", 1)
				} else {
					c.add("scenarios_with_shared_writes_or_sync", 1)
				}
			}
		}
	}
	c.res.Notes["expression_universe"] = len(exprs)
}

// docSensitive: the expression calls a function that reorders, merges or may return its argument itself.
func docSensitive(text string) bool {
	for _, f := range []string{"sort", "reverse", "max_by", "min_by", "merge", "map(", "to_array", "not_null", "join", "values", "keys", "[::", "[]"} {
		if strings.Contains(text, f) {
			return true
		}
	}
	return false
}

func finishC12(r *harness.Run, k map[string]int64, notes map[string]interface{}) harness.Coverage {
	r.Rule = "scenarios S1 (same compiled expression, same document object), S2 (same expression, different documents), S3 (one-shot Search on a shared document), S4 (Compile racing with Search) for every expression of the scenario universe (every built-in incl. calls on array literals stored in the AST; core and projection sentences). Per scenario: solo run of every thread body with a deep snapshot of all shared state (compiled expression, every package-level variable, shared documents up to capacity) at every statement; no write and no sync operation => all interleavings are equivalent (independence theorem, DESIGN 3.6); a write outside a (shimmed) lock / atomic statement is a data race; plus depth-first exploration of real interleavings at statement granularity under the preemption bound, every thread must get its solo result and shared state must be unchanged. Non-trivial = scenario; distinct by (expression, scenario)"
	r.Assumptions = []string{
		"statement-level sequential consistency; the Go memory model below that is covered only by the no-shared-write argument and by the separate free-running -race companion (./check C12 runs it, see race_companion)",
		"shared state = compiled expression, all package-level variables (generated list), documents handed to more than one thread; standard-library internals are assumed correctly synchronised",
	}
	r.States = k["monitor_points"] + k["thread_steps"]
	r.Transitions = k["monitor_points"] + k["thread_steps"]
	r.Evaluations = k["schedules"] + k["solo_runs"]
	r.Traces = k["schedules"] + k["solo_runs"]
	r.Nontrivial = k["scenarios"]
	r.Note("scenarios", k["scenarios"])
	r.Note("scenarios_decided_by_reduction_for_all_schedules", k["scenarios_decided_by_reduction"])
	r.Note("scenarios_with_shared_writes_or_sync", k["scenarios_with_shared_writes_or_sync"])
	r.Note("scenarios_explored_by_dfs", k["dfs_scenarios"])
	r.Note("schedules_explored", k["schedules"])
	r.Note("solo_monitor_runs", k["solo_runs"])
	for kk, v := range notes {
		r.Note(kk, v)
	}
	bounds := map[string]interface{}{"preemption_bound": 1, "threads": 2}
	if r.Thorough() {
		bounds["preemption_bound_shared_expression_scenarios_first_24_expressions"] = 2
		bounds["threads_first_12_expressions_every_third"] = 3
	}
	return harness.Coverage{Exhaustive: true, Bounds: bounds, Outcomes: k["distinct_outcomes"]}
}

var _ = model.Canon
