package main

import (
	"encoding/json"
	"fmt"
	"os"
	"os/exec"
	"regexp"
	"strings"

	"verif/harness"
)

var raceFrame = regexp.MustCompile(`go-jmespath\.([^\s(]+)\(\)\n\s+(\S+?)([^/\s]+\.go):(\d+)`)

// raceCompanion runs bin/vrace (plain -race build of the current tree, real
// goroutines) over the scenario expressions. A race report is a violation.
func raceCompanion(r *harness.Run) {
	bin := harness.Root + "/bin/vrace"
	if _, err := os.Stat(bin); err != nil {
		r.Note("race_companion", "not run: bin/vrace was not built")
		return
	}
	exprs := scenarioExprsW(false, 3)
	rounds := "6"
	if r.Thorough() {
		exprs = scenarioExprsW(true, 4)
		rounds = "12"
	}
	f, err := os.CreateTemp("", "vrace-exprs-*.json")
	if err != nil {
		r.Note("race_companion", "not run: "+err.Error())
		return
	}
	defer os.Remove(f.Name())
	js, _ := json.Marshal(exprs)
	f.Write(js)
	f.Close()
	cmd := exec.Command(bin, "-exprs", f.Name(), "-rounds", rounds, "-n", "4")
	cmd.Env = append(os.Environ(), "GORACE=halt_on_error=0 exitcode=0")
	out, err := cmd.CombinedOutput()
	text := string(out)
	races := strings.Count(text, "WARNING: DATA RACE")
	done := ""
	for _, l := range strings.Split(text, "\n") {
		if strings.HasPrefix(l, "VRACE-DONE") {
			done = l
		}
	}
	if done == "" {
		tail := text
		if len(tail) > 1500 {
			tail = tail[len(tail)-1500:]
		}
		r.Note("race_companion", fmt.Sprintf("did not complete (%v): %s", err, tail))
		if races == 0 {
			return
		}
	}
	r.Note("race_companion", fmt.Sprintf("%s race_reports=%d (free-running, go build -race)", done, races))
	if races > 0 {
		// one violation per distinct first library frame
		blocks := strings.Split(text, "WARNING: DATA RACE")
		seen := map[string]bool{}
		for _, b := range blocks[1:] {
			site := "unknown"
			if m := raceFrame.FindStringSubmatch(b); m != nil {
				site = m[1] + " (" + m[3] + ":" + m[4] + ")"
			}
			if seen[site] {
				continue
			}
			seen[site] = true
			if len(b) > 1800 {
				b = b[:1800]
			}
			r.Report(harness.Violation{Kind: "race", Signature: "race-detector@" + site,
				Input:    map[string]interface{}{"scenario": "free-running: 4 goroutines, same compiled expression / shared document / one-shot Search / Compile"},
				Expected: "no data race", Observed: "go race detector: " + b, Site: site})
		}
	}
}
