package main

import (
	"encoding/json"
	"fmt"
	"os"
	"os/exec"
	"strings"

	jmespath "github.com/jmespath/go-jmespath"

	"verif/harness"
	"verif/impl"
	"verif/model"
	"verif/snap"
	"verif/univ"
)

func init() {
	workers["C13"] = workC13
	finishers["C13"] = finishC13
}

// scenarioExprs: expressions used by the history and schedule engines — every
// built-in (incl. calls on array/object literals stored in the AST), core and
// projection sentences.
func scenarioExprs(thorough bool) []string { return scenarioExprsW(thorough, 4) }

// withConstants adds the constant-operand expressions (C13 only).
var withConstants = false

// curatedCount: length of the hand-written head of the scenario universe (set by scenarioExprsW).
var curatedCount int

var constantOperands = []string{"`[]`", "`{}`", "`\"\"`", "''", "`0`", "`false`", "`null`", "`[0]`", "'a'", "`true`", "`1`"}

// scenarioExprsW: wf is the weight bound of the generated function calls.
func scenarioExprsW(thorough bool, wf int) []string {
	seen := map[string]bool{}
	var out []string
	add := func(s string) {
		if !seen[s] {
			seen[s] = true
			out = append(out, s)
		}
	}
	for _, s := range []string{
		"sort_by(`[3,1,2]`, &@)", "sort(`[3,1,2]`)", "reverse(`[1,2,3]`)", "merge(`{\"a\":1}`, @)", "`[3,1,2]`[::-1]", "sort_by(`[{\"k\":2},{\"k\":1}]`, &k)",
		"max_by(`[{\"k\":2},{\"k\":1}]`, &k)", "`[3,1,2]`", "`{\"b\":[2,1]}`.b", "to_array(`[3,1,2]`)", "map(&@, `[3,1,2]`)", "`[[3,1],[2]]`[]", "not_null(`null`, `[2,1]`)",
		"`[3,1,2]` | [@[0], sort_by(@, &@)[0]]", "`[[3,1,2]]` | [0] | [@[0], sort_by(@, &@)[0], @[0]]", "`{\"a\":[2,1]}`.a | [@[0], sort(@)[0], reverse(@)[0], @[0]]",
		"`[3,1,2]` | [@[0], sort(@)[0]]", "`[3,1,2]` | [@[0], reverse(@)[0]]", "`[3,1,2]` | [@[0], max_by(@, &@)]", "`[{\"k\":2},{\"k\":1}]` | [@[0].k, sort_by(@, &k)[0].k]", "`[3,1,2]` | [@[0], to_array(@)[0], map(&@, @)[0]]",
		"[a[0], sort_by(a, &k)[0], a[0]]", "[@[0], sort_by(@, &@)[0], @[0]]", "[a[0], sort(a)[0], reverse(a)[0], a[0]]",
		"sort_by(@, &@)", "sort_by(a, &@)", "sort_by(a, &k)", "sort_by(b, &k)", "max_by(a, &k)", "min_by(a, &@)", "sort(a)", "reverse(a)", "map(&k, a)", "keys(@)", "values(@)", "*", "*.a",
		"a[?k > `1`]", "a[*].k", "a[].k", "merge(@, @)", "join(',', b)", "length(a)", "a | sort_by(@, &k) | [0]", "[a, b]", "{x: a, y: b}", "abs(a)", "nosuch(a)", "a[::0]", "a[::-1]", "to_string(@)",
		"contains(a, `1`)", "avg(a)", "sum(a)", "max(a)", "min(a)", "type(a)", "not_null(a, b)", "to_number(a)", "starts_with(a, b)", "a.b.c", "a[0]", "a[-1]", "a || b", "a && b", "!a", "a == b", "a < b", "@", "'raw'", "`1`",
		"[`1`, 'a']", "{kind: 'fixed'}", "length([`1`, `2`])", "[`null`, @]", "a || nosuch(a)", "b[*].abs(@, @)", "contains(a, `3`)", "contains(b, 'a')", "a[?contains(@.k || `[]`, `1`)]",
		"a[?nosuch(@)] || length(@)", "b[?nosuch(@)] || length(@)", "a && abs(a, a) || length(@)", "[?nosuch(@)]", "b || nosuch(a)", "a[?k > `1`] || nosuch(@)", "*.abs(@)", "*.k", "a[*].abs(k)", "a[?k >= `0`]", "a[?k >= `0`].t",
		"sum(a)", "max(b)", "sort(b)", "[*].sum(@)", "a[*].to_array(k) | [*][0]", "join(',', b)",
		// a step larger than some documents' arrays and smaller than others'; by-functions whose keys are
		// inconsistent in one document and fine in the next (state left behind by the failing call)
		"[::5]", "a[::5]", "[::-5]", "a[::-5]", "[::3]", "a[1::4]", "[:5]", "a[1:6]", "[-6:]", "[5:]", "a[:-5]", "[2:11]", "a[-11:-1]", "sort_by(@, &k)", "max_by(@, &k)", "min_by(a, &k)", "sort_by(a, &t)", "max_by(a, &t)", "sort(b)", "max(b)",
		// expressions Compile rejects (the one-shot Search must reject them on every document as well): letters
		// and digits outside ASCII that a Unicode-aware shortcut would take for an identifier, and plain syntax errors
		"größe", "名前", "a١", "é", "ǅ", "a b", "a.", "[0", "1a", "a=b", "'unclosed",
		// two call sites of a variadic function with different argument counts; which one runs depends on the
		// document (per-interpreter signature or arity caches must not carry over from one call to the next)
		"a.b && not_null(a, b, c) || not_null(b)", "a.b && not_null(b) || not_null(a, b, c)", "[not_null(a, b, c), not_null(a)]", "a.b && merge(@, @, @) || merge(@)", "not_null(a.b, a, b) | not_null(@)",
		"a.b && abs(b) || abs(b, b)", "a.b && length(a, a) || length(a)", "a[0] && max_by(a, &k) || max_by(a)",
		// nested calls whose inner call fails on some documents and succeeds on others (error paths must
		// release whatever the successful path releases)
		"length(to_string(abs(b)))", "sum(map(&abs(k), a))", "length(to_array(ceil(b)))", "to_string(length(sort(b)))", "not_null(abs(b), length(a))", "max(map(&abs(@), a))", "abs(abs(abs(b)))", "length(keys(merge(a, a)))",
		// empty literals / empty members as the FIRST operand of combining functions
		"merge(`{}`, @)", "merge(`{}`, a, b)", "merge(a, b)", "merge(a, b, @)", "merge(`{}`, `{\"z\":1}`)", "merge(a, `{\"z\":1}`)", "[c, b.y][]", "[`[]`, b.y][]", "not_null(c, b.y)", "to_array(c)", "merge(a, b).x", "[merge(a, b), a]",
		// a reordering call over the result of a call that may hand back its argument itself
		"sort_by(to_array(a), &k)", "sort_by(not_null(a), &k)", "sort_by(to_array(@), &@)", "sort(to_array(b))", "reverse(to_array(b))", "sort_by(a[*], &k)", "sort_by(a[:], &k)", "sort_by(not_null(b, a), &@)", "max_by(to_array(a), &k)", "sort_by(to_array(a), &k)[*].t",
		// a by-function nested in the key expression of another (per-interpreter scratch must not be shared by the two)
		"sort_by(a, &sort_by([t, k], &@)[0])[*].t", "sort_by(a, &max_by([k, t], &@))[*].t", "max_by(a, &sort_by([t, k], &@)[0]).t", "sort_by(a, &sort_by([k, t], &@)[0])", "sort_by(@, &sort_by([k], &@)[0])", "map(&sort_by([k, t], &@)[0], a)",
		"sort_by(a, &k) | sort_by(@, &t)", "sort_by(sort_by(a, &k), &t)", "a[*].sort(@)", "[sort_by(a, &k), a]", "sort_by(a, &k)[0].k",
	} {
		add(s)
	}
	curatedCount = len(out)
	// constants on either side of the logical operators and comparators (a Compile-time rewrite must agree with
	// what the one-shot Search evaluates)
	lits := []string{}
	if withConstants {
		lits = constantOperands
	}
	for _, lit := range lits {
		for _, op := range []string{"||", "&&", "==", "!=", "<"} {
			add(lit + " " + op + " a")
			add("a " + op + " " + lit)
			add(lit + " " + op + " `1`")
		}
		add("!" + lit)
		add("[?" + lit + " || k]")
		add("a[?" + lit + " && k].k")
		add(lit + " | [@, `1`]")
		add("not_null(" + lit + ", a)")
	}
	f := univ.FuncFragment(model.FunctionNames())
	g := univ.NewGen(f)
	for w := 1; w <= wf; w++ {
		for _, s := range g.Sentences(w) {
			t := model.Spell(g.Tokens(s), model.Tight)
			if strings.Contains(t, "(") {
				add(t)
			}
		}
	}
	cw := 3
	if thorough {
		cw = 4
	}
	// negations, logical operators and comparators over fields: a Compile-time simplification (De Morgan,
	// comparator inversion, double negation) must agree with what the one-shot Search evaluates
	if withConstants {
		g := univ.NewGen(univ.LogicFragment())
		for w := 1; w <= cw+2; w++ { // weight 5 (thorough 6): "!(a < b)", "!(!a || b)", "(a || b) && c", ...
			for _, s := range g.Sentences(w) {
				add(model.Spell(g.Tokens(s), model.Tight))
			}
		}
	}
	for _, fr := range []*univ.Fragment{univ.CoreFragment(), univ.ProjFragment()} {
		g := univ.NewGen(fr)
		for w := 1; w <= cw; w++ {
			for _, s := range g.Sentences(w) {
				add(model.Spell(g.Tokens(s), model.Tight))
			}
		}
	}
	return out
}

var historyDocs = univ.Js(
	`{"a":[{"k":2,"t":0},{"k":1,"t":1},{"k":3,"t":2}],"b":["b","a"]}`, `{"a":[3,1,2],"b":[2,1]}`, `[3,1,2]`, `[{"k":"b"},{"k":"a"}]`,
	`{"a":{"b":{"c":1}},"b":2}`, `null`, `{"a":"x","b":"y"}`, `[{"k":1},{"k":"a"}]`,
	`{"c":1}`, `{"d":[2],"a":[1,2],"b":[1,3]}`,
	`{"a":[9,8,7,6,5,4,3,2,1,0],"b":["j","i","h","g","f","e","d","c","b","a"]}`,
	`{"a":[{"k":1,"t":0},{"k":"x","t":1},{"k":2,"t":"y"}],"b":[1,"a"]}`, `[9,8,7,6,5,4,3,2,1,0,11,12]`, `{"a":{},"b":{"x":1,"y":[2]},"c":[]}`,
	`{"a":[[{"k":2,"t":0},{"k":1,"t":1}]],"b":[[3,1,2]]}`, `[[3,1,2]]`, `{"a":[{"k":1},null,{"k":2}],"b":[null,"b","a"]}`, `{"a":[{"k":1,"t":"x"}],"b":["b"]}`,
	`{"größe":1,"名前":2,"a١":3,"é":4,"ǅ":5,"a":6}`,
)

func resKey(res interface{}, err error, pn *impl.Panic) string {
	if pn != nil {
		return "PANIC " + pn.Site
	}
	if err != nil {
		return "ERROR"
	}
	if jsonDefectShallow(res) {
		// Go-typed data in the result: render through encoding/json (never print pointer addresses)
		if js, jerr := json.Marshal(res); jerr == nil {
			return "VALUE(go) " + string(js)
		}
		return fmt.Sprintf("VALUE(go) of type %T", res)
	}
	return "VALUE " + model.Canon(res)
}

// updateInPlace overwrites elements of the arrays and members of the objects of a document without
// changing lengths or identities of the containers (what a caller does when it refreshes its data).
func updateInPlace(v interface{}) bool {
	changed := false
	switch x := v.(type) {
	case []interface{}:
		for i := range x {
			if updateInPlace(x[i]) {
				changed = true
				continue
			}
			switch e := x[i].(type) {
			case float64:
				x[i] = e + 100
				changed = true
			case string:
				x[i] = e + "!"
				changed = true
			}
		}
		if len(x) > 1 {
			x[0], x[len(x)-1] = x[len(x)-1], x[0]
			changed = true
		}
	case map[string]interface{}:
		for k, e := range x {
			if updateInPlace(e) {
				changed = true
				continue
			}
			switch ev := e.(type) {
			case float64:
				x[k] = ev + 100
				changed = true
			case string:
				x[k] = ev + "!"
				changed = true
			}
		}
	}
	return changed
}

func jsonDefectShallow(v interface{}) bool { return jsonDefectDepth(v, 0) }

func jsonDefectDepth(v interface{}, depth int) bool {
	if depth > 300 {
		return true
	}
	switch x := v.(type) {
	case nil, bool, float64, string:
		return false
	case []interface{}:
		for _, e := range x {
			if jsonDefectDepth(e, depth+1) {
				return true
			}
		}
		return false
	case map[string]interface{}:
		for _, e := range x {
			if jsonDefectDepth(e, depth+1) {
				return true
			}
		}
		return false
	}
	return true
}

var parserAlphabet = []string{
	"a", "a.b", "a.b.c.d.e.f.g.h.i.j.k.l.m.n.o.p", "a[0]", "a[1:2:3]", "*", "a.*", "[*]", "[]", "a[?b == `1`].c", "a || b && !c", "a | b | c",
	"{a: b, c: d}", "[a, b]", "f(a, &b)", "`[1, 2, {\"a\": \"\\`\"}]`", "'raw'", `'it\'s'`, `'a\'b\'c'`, "''", `"quoted\n"`, "@", "`1`", "a == 'x'",
	"", " ", "#", "a.", "a..b", ".a", "a.b.c.d.", "a[", "[0", "a[0", "{a:", "{a: b c}", "f(a b)", "f(", "'unclosed", "\"unclosed", "`unclosed", "`{bad json`", "\"bad\\xescape\"",
	`'it\'s`, `'a\'`, `'x'`, `'abc' == 'abc'`, `'\'`, "\"a\\\"", "`\"x\\`", "`\\``", "foo[-]", "foo[:-]", "`seeded`", "\"bad\\qescape\"", "a[?b == 'c\\'d']", "'tail",
	"[0:5]", "a[::2]", "a[1:3] | [0:5]", "a[-1:]",
	"1", "007", "1a", "0", "9_lives", " 1a", "aZ", "AZx", "a.Z9",
	"`[\"a\", \"b\"]`", "{x: `[1, 2]`, y: `{\"k\": [3]}`}", "a | `[1, [2]]`[1]", "`{\"k\": {\"j\": 1}}`.k", "[`[1]`, `[1]`]",
	// callee shapes: what stands before "(" and where the last plain identifier of the PREVIOUS expression ended
	`("a")(x)`, "(a)(x)", `"a"(x)`, "a.b(x)", "a.b.c", "x.f(y)", `a.b | ("c")(d)`, "'f'(x)", "@.a", "[a](b)", "{a: b}(c)", "a.b.c.d", "f(x)", "a.f(x).g(y)", `(("a"))(x)`, "f (x)", "a . b", `"a"."b"("c")`,
	// expressions that differ only in white space INSIDE a token (a cache keyed on normalised text conflates them)
	"'x y'", "'x  y'", "'x\ty'", "`\"p q\"`", "`\"p  q\"`", "'x y' == 'x  y'", "[ 'x y' ]", "['x  y']",
	"a = b", "a.b.c.d.e.f.g ? h", "a[1:2:3:4]", "@(a)", "a b", "a ]", "(a", "a)", "[-]", "a[99999999999999999999]", "!", "&", "a.'x'", "a\u0080", "\xff", "a | ", "[?a",
}

func parseKey(ast jmespath.ASTNode, err error) string {
	if err != nil {
		if se, ok := err.(jmespath.SyntaxError); ok {
			return fmt.Sprintf("SyntaxError{%q off=%d expr=%q}", se.Error(), se.Offset, se.Expression)
		}
		return fmt.Sprintf("%T{%s}", err, err.Error())
	}
	return jmespath.VerifRenderAST(ast)
}

func safeParse(p *jmespath.Parser, x string) (key string) {
	defer func() {
		if r := recover(); r != nil {
			key = fmt.Sprint("PANIC ", r)
		}
	}()
	ast, err := p.Parse(x)
	return parseKey(ast, err)
}

var globalDoc = `{"a":[{"k":2,"t":0},{"k":1,"t":1},{"k":3,"t":2}],"b":["b","a"]}`

// scribble overwrites every element / member of a returned container in place.
func scribble(v interface{}, depth int) {
	if depth > 20 {
		return
	}
	switch x := v.(type) {
	case []interface{}:
		for i := range x {
			scribble(x[i], depth+1)
			x[i] = "SCRIBBLED"
		}
	case map[string]interface{}:
		for k := range x {
			scribble(x[k], depth+1)
			x[k] = "SCRIBBLED"
		}
	}
}

// globalOp performs one process-global operation and renders its outcome.
func globalOp(mode string, xi int) string {
	x := parserAlphabet[xi]
	var doc interface{}
	json.Unmarshal([]byte(globalDoc), &doc)
	if mode == "search" {
		res, err, pn := impl.SearchOnce(x, doc)
		key := resKey(res, err, pn)
		// a caller may do what it likes with a returned value: scribble over it, so that a value that is
		// shared with later one-shot calls (a package-level AST cache handing out its literals) shows
		scribble(res, 0)
		return key
	}
	jp, cerr, cpn := impl.Compile(x)
	switch {
	case cpn != nil:
		return "Compile PANIC " + cpn.Site
	case cerr != nil:
		return fmt.Sprintf("Compile error %T", cerr)
	}
	r2, e2, p2 := impl.Search(jp, doc)
	return "Compiled " + impl.Render(jp) + " / " + resKey(r2, e2, p2)
}

func init() {
	freshModes["C13"] = func(i int, mode string) string { return globalOp(mode, i) }
	preparers["C13"] = func(r *harness.Run) {
		// one brand-new process per (operation, expression): the reference a first call gives
		self, _ := os.Executable()
		ref := map[string][]string{"search": make([]string, len(parserAlphabet)), "compile": make([]string, len(parserAlphabet))}
		type job struct {
			mode string
			i    int
		}
		var jobs []job
		for i := range parserAlphabet {
			jobs = append(jobs, job{"search", i}, job{"compile", i})
		}
		harness.Parallel(len(jobs), func(_, k int) {
			j := jobs[k]
			out, err := exec.Command(self, "-prop", "C13", "-fresh", fmt.Sprint(j.i), "-mode", j.mode).Output()
			val := "FRESH-PROCESS-FAILED " + fmt.Sprint(err)
			for _, l := range strings.Split(string(out), "\n") {
				if strings.HasPrefix(l, "FRESH-RESULT ") {
					val = strings.TrimPrefix(l, "FRESH-RESULT ")
				}
			}
			ref[j.mode][j.i] = val
		})
		js, _ := json.Marshal(ref)
		os.WriteFile(harness.Root+"/bin/c13-fresh.json", js, 0o644)
		r.Note("fresh_process_references", len(jobs))
	}
}

func workC13(c *shardCtx) {
	withConstants = true
	globals := jmespath.VerifGlobals()
	exprs := scenarioExprs(c.thorough())
	// ---------- compiled expressions: closure over Search histories
	for ei, text := range exprs {
		if !c.mine(ei) {
			continue
		}
		c.journal("C13 expression " + text)
		fresh := func() *jmespath.JMESPath {
			jp, cerr, pn := impl.Compile(text)
			if cerr != nil || pn != nil {
				return nil
			}
			return jp
		}
		if fresh() == nil {
			c.add("uncompilable", 1)
			// Compile rejects: then the one-shot Search must fail on every document too
			for _, d := range historyDocs {
				if res, err, pn := impl.SearchOnce(text, model.Copy(d)); err == nil && pn == nil {
					c.report(harness.Violation{Kind: "wrong-value", Signature: "one-shot-differs:" + text,
						Input:    map[string]interface{}{"expression": text, "document": d},
						Expected: "Compile fails for this expression, so jmespath.Search(expr, d) fails as well", Observed: "one-shot Search returns " + resKey(res, nil, nil)})
					break
				}
			}
			continue
		}
		c.add("expressions", 1)
		// reference: fresh compile per call, and the one-shot Search
		ref := make([]string, len(historyDocs))
		for di, d := range historyDocs {
			res, err, pn := impl.Search(fresh(), model.Copy(d))
			ref[di] = resKey(res, err, pn)
			ores, oerr, opn := impl.SearchOnce(text, model.Copy(d))
			c.add("calls", 2)
			if ok := resKey(ores, oerr, opn); ok != ref[di] {
				c.report(harness.Violation{Kind: "wrong-value", Signature: "one-shot-differs:" + text,
					Input: map[string]interface{}{"expression": text, "document": d}, Expected: "jmespath.Search(expr, d) equals Compile(expr).Search(d): " + ref[di], Observed: ok})
			}
			res2, err2, pn2 := impl.Search(fresh(), model.Copy(d))
			if k2 := resKey(res2, err2, pn2); k2 != ref[di] {
				c.report(harness.Violation{Kind: "wrong-value", Signature: "not-repeatable:" + text,
					Input: map[string]interface{}{"expression": text, "document": d}, Expected: ref[di], Observed: k2})
			}
		}
		digest := func(jp *jmespath.JMESPath) snap.Digest {
			return snap.Roots{{Name: "expr", V: jp}, {Name: "globals", V: globals}}.Hash()
		}
		// BFS over histories; a state is the digest of (compiled expression, all package-level variables)
		type node struct{ hist []int }
		jp0 := fresh()
		s0 := digest(jp0)
		baseLines := snap.Roots{{Name: "expr", V: jp0}, {Name: "globals", V: globals}}.Lines()
		seen := map[snap.Digest]bool{s0: true}
		frontier := []node{{nil}}
		states, transitions := 1, 0
		failed := false
		for len(frontier) > 0 && !failed {
			h := frontier[0]
			frontier = frontier[1:]
			for di, d := range historyDocs {
				jp := fresh()
				for _, k := range h.hist {
					impl.Search(jp, model.Copy(historyDocs[k]))
				}
				res, err, pn := impl.Search(jp, model.Copy(d))
				transitions++
				c.add("calls", int64(len(h.hist)+1))
				if k := resKey(res, err, pn); k != ref[di] {
					c.report(harness.Violation{Kind: "wrong-value", Signature: "history-dependent:" + text,
						Input:    map[string]interface{}{"expression": text, "history": h.hist, "document": d},
						Expected: "same as a freshly compiled expression: " + ref[di], Observed: k + " after searching documents " + fmt.Sprint(h.hist)})
					failed = true
					break
				}
				// the same call again must give the same answer
				res, err, pn = impl.Search(jp, model.Copy(d))
				if k := resKey(res, err, pn); k != ref[di] {
					c.report(harness.Violation{Kind: "wrong-value", Signature: "history-dependent:" + text,
						Input:    map[string]interface{}{"expression": text, "history": append(append([]int{}, h.hist...), di), "document": d},
						Expected: ref[di], Observed: k + " on the second identical call"})
					failed = true
					break
				}
				dg := digest(jp)
				if !seen[dg] {
					seen[dg] = true
					states++
					if states <= 64 {
						frontier = append(frontier, node{append(append([]int{}, h.hist...), di)})
					} else {
						c.res.Capped = "more than 64 reachable states for one compiled expression"
					}
					if states == 2 {
						// not a violation by itself (a benign cache would do this too): the new state
						// is explored like any other; what it contains is recorded for the evidence
						lines := snap.Roots{{Name: "expr", V: jp}, {Name: "globals", V: globals}}.Lines()
						c.add("expressions_with_more_than_one_state", 1)
						if len(c.res.Notes) < 6 {
							c.res.Notes["state_change:"+text] = strings.Join(snap.Diff(baseLines, lines), "; ")
						}
					}
				}
			}
		}
		c.add("states", int64(states))
		c.add("transitions", int64(transitions))
		if states == 1 {
			c.add("closed_at_one_state", 1)
		}
		// independent cross-check: all histories of length <= 3 on one object each, call by call
		nd := len(historyDocs)
		maxLen := 2
		if c.thorough() {
			maxLen = 3
		}
		var rec func(h []int)
		rec = func(h []int) {
			if len(h) == maxLen || failed {
				return
			}
			for di := 0; di < nd; di++ {
				hh := append(append([]int{}, h...), di)
				jp := fresh()
				var last string
				for _, k := range hh {
					res, err, pn := impl.Search(jp, model.Copy(historyDocs[k]))
					last = resKey(res, err, pn)
					if last != ref[k] {
						break
					}
				}
				c.add("calls", int64(len(hh)))
				c.add("histories", 1)
				if last != ref[hh[len(hh)-1]] {
					c.report(harness.Violation{Kind: "wrong-value", Signature: "history-dependent:" + text,
						Input: map[string]interface{}{"expression": text, "history": hh}, Expected: ref[hh[len(hh)-1]], Observed: last})
					failed = true
					return
				}
				rec(hh)
			}
		}
		rec(nil)
		// long histories ("pumped"): the same call several hundred times, then every document again
		// (budgets, counters and caches that only overflow or wrap after many calls)
		reps := 1500
		if c.thorough() {
			reps = 5000
		}
		for di := 0; di < nd && !failed; di++ {
			if (ei+di)%4 != 0 && !c.thorough() {
				continue // quick tier: a quarter of the (expression, document) pairs
			}
			jp := fresh()
			d := model.Copy(historyDocs[di])
			for k := 0; k < reps; k++ {
				impl.Search(jp, d)
			}
			c.add("calls", int64(reps))
			c.add("long_histories", 1)
			for dj := 0; dj < nd; dj++ {
				res, err, pn := impl.Search(jp, model.Copy(historyDocs[dj]))
				if k := resKey(res, err, pn); k != ref[dj] {
					c.report(harness.Violation{Kind: "wrong-value", Signature: "history-dependent:" + text,
						Input:    map[string]interface{}{"expression": text, "history": fmt.Sprintf("%d searches of document %d, then document %d", reps, di, dj), "document": historyDocs[dj]},
						Expected: ref[dj], Observed: k})
					failed = true
					break
				}
			}
		}
		// the caller updates a document in place between two searches with the same compiled expression:
		// the second answer must be the one a fresh compile gives on the updated document
		for di := 0; di < nd && !failed; di++ {
			d := model.Copy(historyDocs[di])
			jp := fresh()
			impl.Search(jp, d)
			if !updateInPlace(d) {
				continue
			}
			want, werr, wpn := impl.Search(fresh(), model.Copy(d))
			got, gerr, gpn := impl.Search(jp, d)
			c.add("calls", 3)
			if resKey(got, gerr, gpn) != resKey(want, werr, wpn) {
				c.report(harness.Violation{Kind: "wrong-value", Signature: "stale-after-caller-update:" + text,
					Input:    map[string]interface{}{"expression": text, "document_before": historyDocs[di], "document_after_update": d},
					Expected: resKey(want, werr, wpn) + " (fresh compile on the updated document)", Observed: resKey(got, gerr, gpn)})
				failed = true
			}
		}
		// same document object re-used across calls (combined effect with C06)
		shared := make([]interface{}, nd)
		for i, d := range historyDocs {
			shared[i] = model.Copy(d)
		}
		jp := fresh()
		for round := 0; round < 2 && !failed; round++ {
			for di := range shared {
				res, err, pn := impl.Search(jp, shared[di])
				c.add("calls", 1)
				if k := resKey(res, err, pn); k != ref[di] {
					c.report(harness.Violation{Kind: "wrong-value", Signature: "history-dependent-shared-doc:" + text,
						Input: map[string]interface{}{"expression": text, "document": historyDocs[di], "round": round}, Expected: ref[di], Observed: k + " when the same document object is searched again"})
					failed = true
					break
				}
			}
		}
		if ei%499 == 0 {
			c.sample(map[string]interface{}{"expression": text, "reachable_states": states, "transitions": transitions, "documents": nd})
		}
	}
	// ---------- parser re-use: closure over Parse histories (shard 0 does the BFS, all shards share the depth-3 cross-check)
	X := parserAlphabet
	freshKey := make([]string, len(X))
	for i, x := range X {
		freshKey[i] = safeParse(jmespath.NewParser(), x)
	}
	if c.shard == 0 {
		type pnode struct{ hist []int }
		p0 := jmespath.NewParser()
		seen := map[string]bool{jmespath.VerifParserState(p0): true}
		frontier := []pnode{{nil}}
		pstates, ptrans := 1, 0
		for len(frontier) > 0 {
			h := frontier[0]
			frontier = frontier[1:]
			for xi, x := range X {
				p := jmespath.NewParser()
				for _, k := range h.hist {
					safeParse(p, X[k])
				}
				got := safeParse(p, x)
				ptrans++
				if got != freshKey[xi] {
					c.report(harness.Violation{Kind: "wrong-value", Signature: fmt.Sprintf("parser-history-dependent:%q", x),
						Input:    map[string]interface{}{"expression": x, "parsed_before": histTexts(X, h.hist)},
						Expected: "a reused Parser behaves like a fresh one: " + freshKey[xi], Observed: got})
					continue
				}
				st := jmespath.VerifParserState(p)
				if !seen[st] {
					seen[st] = true
					pstates++
					if pstates <= 20000 {
						frontier = append(frontier, pnode{append(append([]int{}, h.hist...), xi)})
					} else {
						c.res.Capped = "parser state space larger than 20000 states"
					}
				}
			}
		}
		c.add("parser_states", int64(pstates))
		c.add("parser_transitions", int64(ptrans))
		c.res.Notes["parser_alphabet"] = len(X)
		c.sample(map[string]interface{}{"parser_history": []string{X[31], X[20], X[0]}, "oracle": "each Parse equals NewParser().Parse on AST render / error type, message, offset"})
	}
	// a Parser that has rejected hundreds of inputs must still parse like a fresh one
	if c.shard == 1%c.shards {
		p := jmespath.NewParser()
		rounds := 12
		if c.thorough() {
			rounds = 60
		}
		for round := 0; round < rounds; round++ {
			for xi, x := range X {
				if strings.HasPrefix(freshKey[xi], "(") {
					continue // only the rejected ones
				}
				safeParse(p, x)
				safeParse(p, "(("+x)
				safeParse(p, "a[?("+x)
			}
		}
		for xi, x := range X {
			for _, wrap := range []string{"%s", "((%s))", "[((%s))]"} {
				text := strings.Replace(wrap, "%s", x, -1)
				want := safeParse(jmespath.NewParser(), text)
				if got := safeParse(p, text); got != want {
					c.report(harness.Violation{Kind: "wrong-value", Signature: fmt.Sprintf("parser-history-dependent:%q", text),
						Input:    map[string]interface{}{"expression": text, "parsed_before": fmt.Sprintf("%d rounds over every rejected expression of the alphabet (plain and inside unclosed parentheses)", rounds)},
						Expected: want, Observed: got})
					break
				}
			}
			_ = xi
		}
		c.add("parser_histories", int64(rounds*len(X)*3))
	}
	plen := 2
	if c.thorough() {
		plen = 3
	}
	idx := 0
	var prec func(h []int)
	prec = func(h []int) {
		if len(h) == plen {
			return
		}
		for xi := range X {
			hh := append(append([]int{}, h...), xi)
			if len(hh) == 1 {
				idx++
				if !c.mine(idx) {
					continue
				}
			}
			p := jmespath.NewParser()
			var got string
			asts := make([]jmespath.ASTNode, len(hh))
			oks := make([]bool, len(hh))
			for hi, k := range hh {
				func() {
					defer func() {
						if r := recover(); r != nil {
							got = fmt.Sprint("PANIC ", r)
						}
					}()
					ast, err := p.Parse(X[k])
					got = parseKey(ast, err)
					asts[hi], oks[hi] = ast, err == nil
				}()
			}
			// an AST handed out earlier must not change when the parser is used again
			for hi, k := range hh {
				if oks[hi] && jmespath.VerifRenderAST(asts[hi]) != freshKey[k] {
					c.report(harness.Violation{Kind: "state-mutated", Signature: fmt.Sprintf("parser-ast-overwritten:%q", X[k]),
						Input:    map[string]interface{}{"expression": X[k], "parsed_afterwards_on_the_same_parser": histTexts(X, hh[hi+1:])},
						Expected: "the AST returned for the expression stays " + freshKey[k], Observed: jmespath.VerifRenderAST(asts[hi])})
				}
			}
			c.add("parser_histories", 1)
			if got != freshKey[xi] {
				c.report(harness.Violation{Kind: "wrong-value", Signature: fmt.Sprintf("parser-history-dependent:%q", X[xi]),
					Input: map[string]interface{}{"expression": X[xi], "parsed_before": histTexts(X, hh[:len(hh)-1])}, Expected: freshKey[xi], Observed: got})
			}
			prec(hh)
		}
	}
	prec(nil)
	// ---------- process-global history: sequences of one-shot Search / Compile calls with different
	// expressions (package-level caches, pools and buffers survive between them). The reference
	// for every operation was taken by the parent in a brand-new process per operation.
	var gref map[string][]string
	if data, err := os.ReadFile(harness.Root + "/bin/c13-fresh.json"); err == nil {
		json.Unmarshal(data, &gref)
	}
	if len(gref["search"]) == len(X) && len(gref["compile"]) == len(X) {
		type op struct {
			mode string
			xi   int
		}
		var ops []op
		for xi := range X {
			ops = append(ops, op{"search", xi}, op{"compile", xi})
		}
		glen := 2
		if c.thorough() {
			glen = 3
		}
		bad := map[string]bool{}
		var grec func(h []int)
		grec = func(h []int) {
			for oi, o := range ops {
				if len(h) == 0 && !c.mine(oi) {
					continue
				}
				hh := append(append([]int{}, h...), oi)
				var got string
				for _, k := range hh {
					got = globalOp(ops[k].mode, ops[k].xi)
				}
				c.add("global_histories", 1)
				want := gref[o.mode][o.xi]
				sig := fmt.Sprintf("global-history-dependent:%s:%q", o.mode, X[o.xi])
				if got != want && !bad[sig] {
					bad[sig] = true
					var before []string
					for _, k := range hh[:len(hh)-1] {
						before = append(before, ops[k].mode+" "+X[ops[k].xi])
					}
					c.report(harness.Violation{Kind: "wrong-value", Signature: sig,
						Input:    map[string]interface{}{"operation": o.mode, "expression": X[o.xi], "calls_before_in_the_same_process": before, "earlier_calls_by_this_worker": "the worker process has made other calls before; the reference is the same call as the first call of a new process"},
						Expected: want, Observed: got})
				}
				if len(hh) < glen {
					grec(hh)
				}
			}
		}
		grec(nil)
	} else {
		c.res.Capped = "fresh-process references missing; process-global history pass skipped"
	}
	// ---------- many DISTINCT expressions through the package-level entry points, then the early, middle and
	// late ones again (a bounded expression cache: eviction, slot reuse, stale index entries). N ranges over a
	// fixed list of sizes plus every integer literal of the current tree with its neighbours.
	mkExpr := func(round, i int) (string, string) {
		switch i % 3 {
		case 0:
			return fmt.Sprintf("`%d`", round*1000003+i), "VALUE " + model.Canon(float64(round*1000003+i))
		case 1:
			return fmt.Sprintf("'s%d_%d'", round, i), fmt.Sprintf("VALUE \"s%d_%d\"", round, i)
		}
		return fmt.Sprintf("[`%d`, 's%d'][0]", round*1000003+i, i), "VALUE " + model.Canon(float64(round*1000003+i))
	}
	for ni, n := range harness.Sizes([]int{8, 100, 300, 1000, 1025, 2049, 4097}, 4, 70000) {
		if !c.mine(ni) {
			continue
		}
		c.journal(fmt.Sprintf("C13 %d distinct expressions", n))
		check := func(mode string, i int) {
			x, want := mkExpr(ni+1, i)
			var got string
			if mode == "search" {
				res, err, pn := impl.SearchOnce(x, 0.0)
				got = resKey(res, err, pn)
			} else {
				jp, cerr, cpn := impl.Compile(x)
				if cerr != nil || cpn != nil {
					got = fmt.Sprint("Compile failed: ", cerr, cpn)
				} else {
					res, err, pn := impl.Search(jp, 0.0)
					got = resKey(res, err, pn)
				}
			}
			c.add("distinct_expression_calls", 1)
			if got != want {
				c.report(harness.Violation{Kind: "wrong-value", Signature: fmt.Sprintf("history-dependent-after-many-expressions:%s", mode),
					Input:    map[string]interface{}{"operation": mode, "expression": x, "distinct_expressions_used_before_in_this_process": n, "position_of_this_expression": i},
					Expected: want, Observed: got})
			}
		}
		for i := 0; i < n; i++ {
			check("search", i)
			if i%7 == 0 {
				check("compile", i)
			}
		}
		for _, i := range []int{0, 1, 2, 3, n / 2, n/2 + 1, n - 3, n - 2, n - 1, 5, 7} {
			if i >= 0 && i < n {
				check("search", i)
				check("compile", i)
				check("search", i)
			}
		}
		c.add("distinct_expression_histories", 1)
	}
	c.res.Notes["history_documents"] = len(historyDocs)
	c.res.Notes["expression_universe"] = len(exprs)
	// ---------- "the same every time, up to the unspecified member order": every sequence of map orders
	mapOrderPass(c, "C13", false)
}

func histTexts(X []string, h []int) []string {
	out := make([]string, len(h))
	for i, k := range h {
		out[i] = X[k]
	}
	return out
}

func finishC13(r *harness.Run, k map[string]int64, notes map[string]interface{}) harness.Coverage {
	r.Rule = "for each expression of the scenario universe (every built-in incl. calls on array/object literals stored in the AST, core and projection sentences) breadth-first search over Search histories on one compiled object, 8 documents incl. failing ones; state = digest of (all private fields of the compiled expression, every package-level variable); searched to a fixpoint (all histories of any length) plus all histories up to length 2 (thorough 3) replayed call by call; every result equals the fresh-Compile result and the one-shot Search result (map order fixed by the instrumented build, so equality is exact). Parser: BFS over Parse histories on one Parser over an alphabet of 60 valid / lexer-failing / parser-failing expressions, state = VerifParserState, plus all histories up to length 2 (thorough 3); each Parse equals NewParser().Parse on AST render and error (type, message, offset). Member order: for 75 hand-written order-dependent expressions and every sentence of the projection fragment with an object wildcard up to weight 4 (thorough 5) x 14 documents every sequence of map-iteration orders (each range over a map is a choice point; deviations from the sorted order bounded by 2, thorough 3, and unbounded for calls with few requests) must return an outcome the reference model admits for some member order. Process-global state: every sequence of two (thorough three) one-shot Search + Compile calls with different or equal expressions of the alphabet in one process must answer like the first call did. Non-trivial = transitions; distinct by history"
	r.Assumptions = []string{"fixpoint: if every operation maps the single reachable state to itself and answers as a fresh object does, all longer histories are covered", "object-member order is harness-decided in this build"}
	r.States = k["states"] + k["parser_states"]
	r.Transitions = k["transitions"] + k["parser_transitions"]
	r.Evaluations = k["calls"] + k["parser_histories"] + k["parser_transitions"]
	r.Traces = k["histories"] + k["parser_histories"] + k["transitions"] + k["parser_transitions"]
	r.Nontrivial = k["transitions"] + k["parser_transitions"] + k["histories"] + k["parser_histories"]
	r.Note("expressions", k["expressions"])
	r.Note("expressions_closed_at_one_state", k["closed_at_one_state"])
	r.Note("search_histories_replayed", k["histories"])
	r.Note("long_histories_of_1500_calls", k["long_histories"])
	r.Note("parser_states", k["parser_states"])
	r.Note("parser_histories_replayed", k["parser_histories"])
	r.Note("process_global_call_sequences", k["global_histories"])
	r.Note("distinct_expression_histories", fmt.Sprintf("%d histories of N distinct one-shot expressions (N from 4 to 70000: a fixed list plus the integer literals of the tree and their neighbours) followed by the early, middle and late ones again: %d calls", k["distinct_expression_histories"], k["distinct_expression_calls"]))
	r.Evaluations += k["distinct_expression_calls"]
	r.Traces += k["distinct_expression_histories"]
	r.Note("map_order_exploration", fmt.Sprintf("%d (expression, document) pairs, %d executions over %d map-order requests, %d pairs explored without deviation bound, the others up to deviation bound 1/2/3: %d/%d/%d pairs, %d pairs with more than one admissible outcome observed", k["maporder_pairs"], k["maporder_executions"], k["maporder_requests"], k["maporder_pairs_explored_without_bound"], k["maporder_pairs_completed_at_bound_1"], k["maporder_pairs_completed_at_bound_2"], k["maporder_pairs_completed_at_bound_3"], k["maporder_pairs_with_several_outcomes"]))
	r.Evaluations += k["maporder_executions"]
	r.Traces += k["maporder_executions"]
	r.Transitions += k["maporder_requests"]
	r.Evaluations += k["global_histories"]
	r.Traces += k["global_histories"]
	for kk, v := range notes {
		r.Note(kk, v)
	}
	return harness.Coverage{Exhaustive: true, Bounds: map[string]interface{}{"history_depth_crosscheck": 2, "documents": 8}, Outcomes: k["parser_states"]}
}
