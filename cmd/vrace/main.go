// Command vrace is the free-running companion of C12: the same thread bodies as
// the scheduler scenarios, run by real goroutines under the Go race detector
// (build with -race). It is not the deciding step; it covers accesses the
// statement-level monitor can not see.
package main

import (
	"encoding/json"
	"flag"
	"fmt"
	"os"
	"strings"
	"sync"

	jmespath "github.com/jmespath/go-jmespath"
)

var docs = []string{
	`{"a":[{"k":2,"t":0},{"k":1,"t":1},{"k":3,"t":2}],"b":["b","a","c"]}`,
	`{"a":[3,1,2],"b":[2,1]}`,
	`[3,1,2]`,
	`[{"k":"b"},{"k":"a"},{"k":"c"}]`,
}

func main() {
	rounds := flag.Int("rounds", 20, "rounds per expression")
	n := flag.Int("n", 4, "goroutines")
	list := flag.String("exprs", "", "JSON file with the expression list")
	flag.Parse()
	data, err := os.ReadFile(*list)
	if err != nil {
		fmt.Println("vrace:", err)
		os.Exit(2)
	}
	var exprs []string
	if err := json.Unmarshal(data, &exprs); err != nil {
		fmt.Println("vrace:", err)
		os.Exit(2)
	}
	runs := 0
	for ei, e := range exprs {
		jp, err := jmespath.Compile(e)
		if err != nil {
			continue
		}
		var shared interface{}
		json.Unmarshal([]byte(docs[ei%len(docs)]), &shared)
		for r := 0; r < *rounds; r++ {
			var wg sync.WaitGroup
			for g := 0; g < *n; g++ {
				wg.Add(1)
				go func(g int) {
					defer wg.Done()
					defer func() { recover() }()
					switch g % 4 {
					case 0, 1:
						jp.Search(shared) // same expression, same document
					case 2:
						jmespath.Search(e, shared) // one-shot on the shared document
						// never-seen-before spellings of the expression, different in every goroutine and
						// round (a package-level cache takes its miss path concurrently)
						jmespath.Search(e+strings.Repeat(" ", 1+r*8+g), shared)
						jmespath.Compile(strings.Repeat(" ", 1+r*8+g) + e)
					case 3:
						var own interface{}
						json.Unmarshal([]byte(docs[(ei+1)%len(docs)]), &own)
						jp.Search(own) // same expression, different document
						jmespath.Compile(e)
						jmespath.Search(strings.Repeat("\t", 1+r*8+g)+e, own)
					}
				}(g)
			}
			wg.Wait()
			runs++
		}
	}
	fmt.Printf("VRACE-DONE expressions=%d runs=%d goroutines=%d\n", len(exprs), runs, *n)
}
