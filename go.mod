module verif

go 1.23

require github.com/jmespath/go-jmespath v0.0.0

replace github.com/jmespath/go-jmespath => /repo
