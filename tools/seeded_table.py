#!/usr/bin/env python3
"""Writes /verif/seeded/RESULTS.md from the meta.json of every kept seeded change."""
import json, glob, os
ROOT = os.path.dirname(os.path.dirname(os.path.abspath(__file__)))
rows = []
for d in sorted(glob.glob(os.path.join(ROOT, "seeded", "C*", ""))):
    m = json.load(open(os.path.join(d, "meta.json")))
    v = m.get("verification", {})
    name = os.path.basename(d[:-1])
    checks = v.get("checks", {})
    caught = v.get("caught_by", [])
    ran = sorted(checks.keys())
    rows.append((name, m.get("property", name[:3]), m.get("title", "").replace("|", "/"), m.get("needs_to_manifest", "").replace("|", "/").replace("\n", " ")[:220], caught, ran))
out = ["# Seeded property-breaking changes (from independent sub-agents) and which checks report them", "",
       "Every change below compiles, passes the repository's own tests, and has a demonstration that fails with it and passes without it",
       "(confirmed by tools/seeded_run.py in a scratch worktree). `caught by` lists the quick-tier checks that exit 1 with a VIOLATION line on the",
       "patched tree; `checks run` says which checks were run against it (the property's own check, or all 19).", "",
       "| id | property | change | needs | caught by | checks run |", "|---|---|---|---|---|---|"]
tot = 0
for name, prop, title, needs, caught, ran in rows:
    tot += 1 if caught else 0
    out.append("| %s | %s | %s | %s | %s | %s |" % (name, prop, title, needs, ", ".join(caught) or "**none**", "all" if len(ran) > 5 else ", ".join(ran)))
out += ["", "%d changes, %d reported by at least one check." % (len(rows), tot), ""]
open(os.path.join(ROOT, "seeded", "RESULTS.md"), "w").write("\n".join(out))
print("%d changes, %d caught" % (len(rows), tot))
