#!/usr/bin/env python3
"""Merge per-check outcomes of a seeded change recorded by another run of tools/seeded_run.py
(e.g. in a `vp run` snapshot) into /verif/seeded/<name>/meta.json.
usage: seeded_merge.py [--src-wins] <snapshot-seeded-dir>...
Default: outcomes already present in /verif win (local re-runs are newer); --src-wins: the snapshot's are newer."""
import json, os, shutil, sys

VERIF = os.path.dirname(os.path.dirname(os.path.abspath(__file__)))

def main():
    args = sys.argv[1:]
    src_wins = "--src-wins" in args
    for src in [a for a in args if a != "--src-wins"]:
        name = os.path.basename(src.rstrip("/"))
        sm = os.path.join(src, "meta.json")
        if not os.path.exists(sm):
            continue
        dst = os.path.join(VERIF, "seeded", name)
        if not os.path.exists(os.path.join(dst, "meta.json")):
            shutil.copytree(src, dst, dirs_exist_ok=True)
            print(name, "copied")
            continue
        s = json.load(open(sm))
        d = json.load(open(os.path.join(dst, "meta.json")))
        sc = s.get("verification", {}).get("checks", {}) or {}
        dv = d.setdefault("verification", {})
        dc = dv.setdefault("checks", {})
        for k, v in sc.items():
            if src_wins:
                dc[k] = v
            else:
                dc.setdefault(k, v)
        dv["caught_by"] = sorted(c for c, v in dc.items() if v.get("exit") == 1 and v.get("violations", 0) > 0)
        json.dump(d, open(os.path.join(dst, "meta.json"), "w"), indent=1)
        print(name, "merged ->", dv["caught_by"])

if __name__ == "__main__":
    main()
