#!/usr/bin/env python3
"""Regression over the kept seeded changes: apply each patch to a scratch worktree of /repo and run ONE check
that is recorded as reporting it (the property's own check when it is among them); print the changes that the
check no longer reports.  usage: tools/seeded_regress.py [-j N] [name-glob]"""
import concurrent.futures, fnmatch, glob, json, os, shutil, subprocess, sys, tempfile
ENV = dict(os.environ, GOFLAGS="-mod=mod", GOPROXY="off", GOSUMDB="off", GOTOOLCHAIN="local")
VERIF = os.path.dirname(os.path.dirname(os.path.abspath(__file__)))

def sh(cmd, cwd, env=ENV, timeout=3600):
    p = subprocess.run(cmd, shell=True, cwd=cwd, env=env, capture_output=True, text=True, timeout=timeout)
    return p.returncode, p.stdout + p.stderr

def one(d):
    name = os.path.basename(d)
    m = json.load(open(os.path.join(d, "meta.json")))
    cb = (m.get("verification") or {}).get("caught_by") or []
    if not cb:
        return name, None, "not reported by any check"
    cid = m["property"] if m["property"] in cb else cb[0]
    wt = tempfile.mkdtemp(prefix="regress-", dir="/tmp"); os.rmdir(wt)
    rc, out = sh("git -C /repo worktree add --detach %s HEAD" % wt, "/")
    if rc != 0:
        return name, cid, "worktree: " + out[-200:]
    try:
        rc, out = sh("git apply --whitespace=nowarn %s" % os.path.join(d, "patch.diff"), wt)
        if rc != 0:
            return name, cid, "patch does not apply: " + out[-200:]
        rc, out = sh("./check %s quick" % cid, VERIF, env=dict(ENV, VERIF_REPO=wt))
        viol = [l for l in out.splitlines() if l.startswith("VIOLATION")]
        if rc == 1 and viol:
            return name, cid, ""
        return name, cid, "exit %d, %d VIOLATION lines: %s" % (rc, len(viol), out[-300:].replace("\n", " | "))
    finally:
        sh("git -C /repo worktree remove --force %s" % wt, "/"); shutil.rmtree(wt, ignore_errors=True)

def main():
    args = sys.argv[1:]
    j = 3
    if args[:1] == ["-j"]:
        j = int(args[1]); args = args[2:]
    pat = args[0] if args else "C*"
    dirs = [d for d in sorted(glob.glob(os.path.join(VERIF, "seeded", "C*"))) if fnmatch.fnmatch(os.path.basename(d), pat) and os.path.exists(os.path.join(d, "patch.diff"))]
    bad = 0
    with concurrent.futures.ThreadPoolExecutor(j) as ex:
        for name, cid, err in ex.map(one, dirs):
            if err:
                bad += 1
                print("REGRESSION %s (%s): %s" % (name, cid, err), flush=True)
            else:
                print("ok %s %s" % (name, cid), flush=True)
    print("%d changes, %d no longer reported" % (len(dirs), bad))
    return 1 if bad else 0

if __name__ == "__main__":
    sys.exit(main())
