#!/usr/bin/env python3
"""Negative controls: apply a behaviour-preserving patch to a scratch worktree of /repo, make sure the
repository's tests pass, run every registered quick check against it (VERIF_REPO=...) and record that all
of them stay silent.   usage: tools/benign_run.py <candidate-dir> <dest-name>"""
import json, os, shutil, subprocess, sys, tempfile, time
ENV = dict(os.environ, GOFLAGS="-mod=mod", GOPROXY="off", GOSUMDB="off", GOTOOLCHAIN="local")
VERIF = os.path.dirname(os.path.dirname(os.path.abspath(__file__)))
def sh(cmd, cwd, timeout=7200, env=ENV):
    p = subprocess.run(cmd, shell=True, cwd=cwd, env=env, capture_output=True, text=True, timeout=timeout)
    return p.returncode, p.stdout + p.stderr
cand, dest = sys.argv[1], sys.argv[2]
meta = json.load(open(os.path.join(cand, "meta.json")))
wt = tempfile.mkdtemp(prefix="benign-", dir="/tmp"); os.rmdir(wt)
rc, out = sh("git -C /repo worktree add --detach %s HEAD" % wt, "/"); assert rc == 0, out
res = {}
try:
    patch = os.path.abspath(os.path.join(cand, "patch.diff"))
    rc, out = sh("git apply --whitespace=nowarn %s" % patch, wt); assert rc == 0, out
    rc, out = sh("go build ./... && go build -tags verif ./... && go test -count=1 ./...", wt)
    res["repository_tests"] = "pass" if rc == 0 else "FAIL: " + out[-300:]
    ids = [c["property_id"] for c in json.load(open(os.path.join(VERIF, "MANIFEST.json")))["checks"]]
    alarms = []
    for cid in ids:
        t0 = time.time()
        rc, out = sh("./check %s quick" % cid, VERIF, env=dict(ENV, VERIF_REPO=wt))
        viol = [l for l in out.splitlines() if l.startswith("VIOLATION")]
        det = [l for l in out.splitlines() if l.startswith("violation detail")]
        res[cid] = {"exit": rc, "violations": len(viol), "seconds": round(time.time() - t0, 1)}
        if rc != 0 or viol:
            alarms.append(cid); res[cid]["first"] = (det[0][:600] if det else out[-400:])
        print("  %s: exit %d, %d VIOLATION, %.0fs" % (cid, rc, len(viol), time.time() - t0), flush=True)
    res["alarms"] = alarms
finally:
    sh("git -C /repo worktree remove --force %s" % wt, "/"); shutil.rmtree(wt, ignore_errors=True)
d = os.path.join(VERIF, "seeded", dest); os.makedirs(d, exist_ok=True)
shutil.copy(os.path.join(cand, "patch.diff"), os.path.join(d, "patch.diff"))
meta["negative_control"] = True
meta["what_was_run"] = "tools/benign_run.py: scratch worktree of /repo HEAD + patch; go build (with and without -tags verif) and go test ./... pass; every registered quick check with VERIF_REPO=<worktree>"
meta["result"] = res
json.dump(meta, open(os.path.join(d, "meta.json"), "w"), indent=1)
print(json.dumps({"dest": dest, "alarms": res.get("alarms")}))
