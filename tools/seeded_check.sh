#!/bin/bash
# usage: tools/seeded_check.sh <seeded-name> <check-id>... : apply seeded/<name>/patch.diff to a scratch worktree of /repo
# (removed afterwards) and run the given quick checks against it; prints the verdict lines only.
cd "$(dirname "$0")/.."
name="$1"; shift
wt=$(mktemp -d /tmp/seedchk.XXXXXX); rmdir "$wt"
git -C /repo worktree add --detach "$wt" HEAD -q || exit 2
trap 'git -C /repo worktree remove --force "$wt" >/dev/null 2>&1; rm -rf "$wt"' EXIT
git -C "$wt" apply --whitespace=nowarn "$PWD/seeded/$name/patch.diff" || exit 2
for c in "$@"; do
  out=$(VERIF_REPO="$wt" ./check "$c" quick 2>&1); rc=$?
  echo "$name $c: exit $rc, $(echo "$out" | grep -c '^VIOLATION') VIOLATION; $(echo "$out" | grep -m1 '^violation detail' | cut -c1-300)"
  echo "$out" | grep -E "^(TOOLING|$c quick:)" | cut -c1-400
done
