#!/usr/bin/env python3
"""Regenerates /verif/MANIFEST.json from the table below (kept as a script so the
manifest stays valid and consistent while checks are added)."""
import json, subprocess, os

ROOT = os.path.dirname(os.path.dirname(os.path.abspath(__file__)))

# id -> (engine, category, technique, text, note, design_ref)
CHECKS = {
 "C04": ("M", "model_checking",
   "bounded exhaustive enumeration of token sequences, CFG-recogniser model vs Compile",
   "Every token sequence up to the length bound over a one-spelling-per-kind alphabet (quick 4, thorough 6 tokens; 3 whitespace styles), every single-token edit of every generated sentence up to the size bound, and sequences over structured spellings are classified by an independent chart recogniser of the JMESPath ABNF and replayed against Compile (a token whose content is invalid - literal that is not JSON, bad escape, bare minus - makes the sequence ungrammatical); every string of up to 3 (thorough 4) symbols of a 69-symbol lexer-class byte alphabet is lexed by the reference lexer and judged the same way; what Compile rejects the one-shot Search must reject too; accepted sentences are also searched to show they are usable. Exhaustive inside the bound, so any accept/reject deviation expressible in that many tokens is found. Plus closer/separator edits (delete, replace, insert) of every sentence up to structural weight 5 (thorough 6) and every numeral spelling in every numeric position.",
   "Trusted: the ABNF transcription in model/grammar.go (grounded on the 862 official compliance cases and cross-checked against the independent precedence parser P and the sentence generator on all sequences up to 5 kinds). Gaps G1-G4 give no verdict.",
   "DESIGN.md section 5 C04"),
 "C01": ("M", "model_checking",
   "bounded exhaustive (expression x document) enumeration, reference evaluator vs Search",
   "All sentences of the core fragment up to the structural weight bound (quick 5, thorough 6) x all documents of V(d,2,A6,keys) (quick depth 1: 430 docs, thorough depth 2: 19k docs) are evaluated by the independent reference evaluator and replayed against the real compiled Search; results compared by deep JSON equality, error iff error. Every Execute case of the fragment meets every JSON type as current value. Plus pumped sentence families (one construct repeated k times, nested or in a row; k from a fixed size list and the integer literals of the current tree with their neighbours, up to 1100, thorough 5000).",
   "Trusted: model/eval.go (grounded on the official compliance corpus). Claim is bounded: no violation by any expression/document inside the stated bounds.",
   "DESIGN.md section 5 C01"),
 "C02": ("M", "model_checking",
   "bounded exhaustive (expression x document) enumeration with outcome sets over object-member orders",
   "All sentences of the projection fragment containing a projection (every projection kind, chained/nested, RHS that map null to non-null, all terminators) up to the weight bound x ~1.2k-10k documents incl. heterogeneous / null-containing arrays and objects, plus every postfix chain (dot, index, two slice forms, [*], .*, [], filters, type(@), with | and || as terminators) up to weight 7 (thorough 8) and ~10^4 projections piped into a second projection; the real result must be a member of the set of outcomes the reference evaluator admits over all object-member orders. Plus pumped projection families (k flattens / wildcards / filters / slices in a row, nested or as siblings of one multi-select; sizes as in C01).",
   "Trusted: model/eval.go. Bounded as reported in the evidence.",
   "DESIGN.md section 5 C02"),
 "C07": ("M", "model_checking",
   "exhaustive operand-pair and operator-nesting enumeration against a reference truth table",
   "All pairs of 84 operand values (every type, emptiness, nesting) x 8 binary operators as fields and as literals, !x/!!x, all nestings of ||,&&,!,comparators up to 6 (thorough 7) tokens over all triples of 12 operand values, the same conditions inside filters, and short-circuit probes with an erroring unevaluated side; compared with the reference evaluator. Plus projection-valued filter conditions and operands that alias each other (two windows of one backing array, one container held twice; documents handed to the implementation uncopied).",
   "Trusted: model/eval.go truthiness / deep equality / numeric ordering.",
   "DESIGN.md section 5 C07"),
 "C08": ("M", "model_checking",
   "exhaustive (length,start,stop,step) window enumeration against CPython slice arithmetic",
   "Array lengths 0..12 (thorough 0..24) x all (start,stop,step) in ({absent} U [-L-3,L+3])^3 plus +-2^31/+-2^63 boundary crossings, via [a:b:c], x[a:b:c], a typed []string twin, non-array subjects and 20-digit numerals; compared with a transcription of PySlice_AdjustIndices; panics are violations.",
   "Trusted: model.SliceIndices. Magnitudes beyond the window are represented by the boundary set only.",
   "DESIGN.md section 5 C08"),
 "C09": ("M", "model_checking",
   "exhaustive well-typed argument-tuple enumeration per built-in against reference function definitions",
   "For each of the 26 built-ins every well-typed argument tuple of a typed value universe (numbers, 12 strings incl. multi-byte, all arrays up to length 6 (thorough 7) over 4 numbers / 4 strings with duplicates and all orders, {k,t}-object arrays with tied keys, colliding objects, heterogeneous arrays), standalone and in 10 contexts, is evaluated by the reference definitions and replayed against Search; to_string judged by decode-back, to_number per gap G5 over all strings of <=3 symbols from a numeric alphabet. Plus pairs of different functions over one field in one expression, variadic calls of different widths, nested control characters for to_string and JSON keywords for to_number.",
   "Trusted: the function table in model/eval.go. Bounded value universe; unordered results compared through outcome sets.",
   "DESIGN.md section 5 C09"),
 "C10": ("M", "model_checking",
   "exhaustive function x arity x argument-type matrix enumeration against the reference signature table",
   "28 names x arities 0..3 x all argument tuples over 13 argument kinds (11 JSON values + 2 expression references) as literals and through document fields, arity 4 over a 6-kind subset, and by-expression functions over all arrays of length 0..4 (thorough 5) of 10 element kinds: every call the reference signature table rejects must be an error (never a value or a panic), every accepted call must give the reference value. Plus by-functions nested in key expressions and long multi-byte ill-typed arguments (sizes also from the mined constants).",
   "Trusted: signature table in model/eval.go. Gap G11 (expression reference in a position typed any) gives no verdict.",
   "DESIGN.md section 5 C10"),
 "C11": ("M", "model_checking",
   "exhaustive one-hole context enumeration around erroring sub-expressions, reference evaluator decides reachability",
   "Six erroring sub-expressions (invalid type, unknown function, invalid arity, zero step, mixed array, inconsistent by-expression keys) in every context up to structural weight 5 (thorough 6) over all constructs x 30 documents that make the hole evaluated or unevaluated; whenever the reference evaluator reaches the error (under every admissible member order) Search must return an error.",
   "Trusted: evaluation-order/short-circuit semantics of model/eval.go.",
   "DESIGN.md section 5 C11"),
 "C15": ("M", "model_checking",
   "exhaustive pair / context enumeration with a differential oracle on the implementation (no reference values)",
   "All pairs (A,B) of mixed-fragment sentences up to weight 3 x documents: Search('A | B', d) must equal Search(B, Search(A, d)) and err iff a step errs; all contexts up to weight 4 whose hole is root-evaluated x hole expressions x documents: Search(C[E], d) must equal Search(C[literal of Search(E,d)], d). Plus pumped stages on either side of the pipe and big-numeral transparency (a field and the literal spelling the same digits).",
   "The reference evaluator only classifies order-dependent cases (skipped, counted) and non-trivial ones. Bounded universes.",
   "DESIGN.md section 5 C15"),
 "C16": ("M", "model_checking",
   "bounded exhaustive (expression x document) enumeration with a JSON-closure invariant on every successful result",
   "The C01/C02/C07 universes plus every built-in with every argument shape (fields, literals, expression references in declared positions) up to weight 5 x 101 documents incl. all empty containers: every successful result is type-walked (no NaN/Inf, no internal object, no nil slice/map, no foreign Go type) and round-tripped through encoding/json.",
   "Domain restriction (expression references only in declared positions) decided by the reference evaluator. Bounded universes.",
   "DESIGN.md section 5 C16"),
 "C03": ("M", "model_checking",
   "exhaustive sentence enumeration; structural AST comparison against an independent canonical precedence parser, paren/whitespace variants judged by the model",
   "Every grammatical token sequence up to 4 (thorough 6) tokens and every sentence of the operator fragment up to structural weight 5 (thorough 6): three whitespace styles and every redundant parenthesis pair the canonical parser P judges meaning-preserving must leave the implementation's AST (VerifRenderAST hook) unchanged; the implementation's AST is compared with P's AST and any difference must be confirmed by a distinguishing document (implementation result outside the reference outcome set) before it is reported, so a pure AST refactoring cannot alarm.",
   "Trusted: canonical binding powers in model/parser.go (cross-checked against the CFG recogniser on all sequences up to 5 kinds; grounded on the compliance corpus). Equal parse implies equal result on all documents.",
   "DESIGN.md section 5 C03"),
 "C05": ("M", "model_checking",
   "exhaustive byte-string / pumped-string / hostile-sentence enumeration with recover() and a per-case watchdog",
   "All strings of up to 3 (thorough 5) symbols over a 50-symbol alphabet with one member per lexer character class and class boundary (incl. invalid UTF-8), the pumping family u^k v w^k up to 64 KiB, grammar-generated sentences with hostile leaves (extreme integers, non-ASCII, invalid UTF-8), expression references in every operand position, and calls with 7..256 arguments x 30 documents: Compile and Search must return; a deterministic pass on the statement-instrumented build bounds the statement count of every pumped family (budget and growth rate). The instrumented side pass also explores every sequence of map-iteration orders for ~30k (expression, document) pairs with object-member iteration (no execution may panic), and the plain pass runs every nesting of two built-ins over extreme-number and numeral-like string documents.",
   "Exhaustive only for the stated alphabet/length; panics attributed by innermost library frame; termination by a statement budget on the instrumented build plus a 120 s per-case watchdog on the code as shipped; a fatal runtime error of the driver is reported as a crash violation.",
   "DESIGN.md section 5 C05"),
 "C14": ("M", "model_checking",
   "exhaustive short-string / JSON-value enumeration through three independent escapings",
   "All strings of up to 3 (thorough 4) symbols over a 24-symbol alphabet (quotes, backslash, escape letters, control characters, 2/3/4-byte runes): quoted identifiers in three JSON escapings select exactly the key, raw strings and backtick literals of a JSON value universe denote exactly the written value, unquoted-identifier recognition equals [A-Za-z_][A-Za-z0-9_]* on all strings of <=3 class symbols, whitespace styles leave the AST unchanged.",
   "Escaping helpers are independent of encoding/json and cross-checked against it at run time.",
   "DESIGN.md section 5 C14"),
 "C17": ("M", "model_checking",
   "exhaustive byte-string / token-sequence enumeration with contract invariants on (expression, error)",
   "Over the C05 byte universe, all token sequences up to 4 (thorough 5) tokens in three styles and pumped strings: exactly one of (expression, error) non-nil; a returned expression is usable; a SyntaxError carries the input, 0<=Offset<=len and the exact caret rendering; MustCompile panics iff Compile fails, naming the quoted expression, else returns an equivalent AST.",
   "Non-SyntaxError errors (JSON decoding, numeral range) are only required to be non-nil.",
   "DESIGN.md section 5 C17"),
 "C06": ("S", "model_checking",
   "exhaustive (expression x document) enumeration on a statement-instrumented build with a deep write monitor at every statement",
   "Every built-in with every argument shape, bare and in 14 contexts (projection RHS, filter condition, pipe, multi-select, expression-reference body, error path), plus core/projection universes x documents with unsorted arrays, duplicates, nesting and hidden spare capacity: the document's deep snapshot (order-sensitive, up to capacity) is compared before, at EVERY statement of the instrumented library during, and after each call, on success and error paths; the documents live as long as the worker and all of them (incl. three with 64-130 element arrays) are re-verified after every expression, so a write that lands after the call returned is seen; a write is reported with the file:line of the writing statement.",
   "Instrumentation is generated from /repo's working tree at run time (go build -overlay). Statement granularity; generic JSON documents.",
   "DESIGN.md section 5 C06"),
 "C12": ("S", "model_checking",
   "controlled cooperative scheduler over the statement-instrumented real code: solo write-monitor runs + independence reduction, and depth-first exploration of interleavings under a preemption bound",
   "Scenarios S1-S4 (same compiled expression with same/different documents, one-shot Search on a shared document, Compile racing with Search) for every scenario expression: each thread body is run alone with a deep snapshot of all shared state (compiled expression, every package-level variable, shared documents) at every statement; no shared write and no sync operation proves all interleavings equivalent for any number of goroutines (independence theorem), an unsynchronised shared write is a data race; in addition real interleavings of 2 (thorough up to 3) threads are explored depth-first at statement granularity with preemption bound 1 (thorough 2), each schedule checked against the solo results; failing schedules are replayed 3 times. Further scenarios: the first library calls of a fresh process inside monitored threads (lazy initialisation), a compiled expression with a past of failing and succeeding searches, struct-typed documents of two layouts, a 40-element document. sync.Pool is replaced by a deterministic pool emptied before every execution, so pooled code is explored exhaustively.",
   "Statement-level sequential consistency. Free-running go -race companion run alongside (reported in evidence, not the deciding step). sync.Mutex/RWMutex/Once/WaitGroup are shimmed; channels are not modelled (none in the library).",
   "DESIGN.md sections 3.5, 3.6, 5 C12"),
 "C13": ("H", "model_checking",
   "explicit-state breadth-first search over call histories on real objects, state = deep snapshot digest, to a fixpoint",
   "For every scenario expression: BFS over Search histories on one compiled object (8 documents incl. failing ones), state = digest of all private fields of the compiled expression plus every package-level variable, to closure (covers histories of every length), plus all histories up to length 2 (thorough 3) replayed call by call; every answer equals the fresh-Compile and the one-shot answer (map order harness-decided, exact equality). Parser: BFS over Parse histories of one Parser over 60 valid/invalid expressions to closure (477 states) plus all histories up to length 2 (thorough 3), each Parse equal to a fresh parser's on AST render and error type/message/offset, ASTs handed out earlier re-inspected after later parses, hundreds of rejected inputs followed by valid ones. Process-global state: every sequence of two (thorough three) one-shot Search / Compile calls over the alphabet, each compared with the same call made as the first call of a brand-new process (with a caller that scribbles over returned values); pumped histories of 1500 (thorough 5000) repetitions; caller updates of a document in place between two searches. Map-order exploration: for 75 hand-written order-dependent expressions and every projection-fragment sentence with an object wildcard up to weight 4 (thorough 5) x 14 documents, every sequence of map-iteration orders (deviation bound iterated 1,2,(3) per pair, unbounded for calls with few requests) must give an outcome the reference model admits. Histories of N distinct one-shot expressions (N up to 70000 from mined sizes) followed by the early, middle and late ones again.",
   "Successor states are reached by replaying the shortest history on a fresh object (real objects can not be cloned).",
   "DESIGN.md section 5 C13"),
 "C18": ("M", "model_checking",
   "exhaustive (typed document x navigational expression) enumeration with a differential oracle against the generic JSON twin",
   "Documents built from nested struct types (by value and by pointer; every combination of nil/non-nil pointers, non-nil typed slices of length 0..2, nil elements in []*T) x all navigational expressions up to structural weight 3 (thorough 4) over the field names in both capitalisations, plus length() of slices and strings: the JSON-normalised result on the Go value must equal the result on its encoding/json round trip; every built-in applied to every typed slice/struct/pointer field must not panic.",
   "The generic twin is the encoding/json round trip. Nil slices/maps are outside the property's domain.",
   "DESIGN.md section 5 C18"),
 "C19": ("P", "fault_enumeration",
   "exhaustive stage/fault enumeration on the real jpgo binary (one process per case), in-process reference from the same tree",
   "The jpgo binary built from the current tree is run on the FULL product (both tiers) of 61 expressions (valid of every result type incl. false-like and multi-line, lexer/parser syntax errors, evaluation errors, leading dash) x 47 input texts (valid of every type, 32-64 KiB inputs, empty, whitespace, non-JSON white space, BOM, truncated, trailing garbage, two documents, invalid UTF-8) x {-input file, stdin pipe, stdin from a regular file, -input naming a pipe, missing file}; the thorough tier adds every sentence of the mixed fragment up to structural weight 4 (~8k expressions) x 9 valid inputs x 2 channels (1.6e5 process runs): each case is one trace of the six-stage pipeline; stdout/exit status are compared with the in-process library result, and the two channels with each other.",
   "Validity of the input is decided by encoding/json as jpgo does; object-member order handled through the reference outcome set.",
   "DESIGN.md section 5 C19"),
}

NOT_YET = {}

def main():
    props = [json.loads(l) for l in open(os.path.join(ROOT, "properties.jsonl"))]
    hooks_commits = subprocess.run(["git", "-C", "/repo", "log", "--format=%H", "--grep=^verif hooks"],
                                   capture_output=True, text=True).stdout.split()
    env = "GOFLAGS=-mod=mod GOPROXY=off GOSUMDB=off GOTOOLCHAIN=local"
    m = {
     "version": 1,
     "setup_cmd": "cd /verif && ./setup.sh",
     "hooks": {
       "guard": "verif",
       "enable": "go build -tags verif (the only hook file, /repo/verif_hooks.go, carries //go:build verif); the instrumented builds additionally use go build -overlay with files generated from /repo's working tree at run time",
       "baseline_off_cmd": "cd /repo && %s go test -vet=off -count=1 ./... && cd internal/testify && %s go test -vet=off -count=1 ./..." % (env, env),
       "source_commits": hooks_commits,
       "add_only": True,
     },
     "engines": [
       {"name": "P", "path": "/verif/cmd/vcheck/c19.go", "serves_properties": ["C19"], "kind_free_text": "process-level enumeration of pipeline stages / faults on the built jpgo binary"},
       {"name": "S", "path": "/verif/cmd/vsched (+ /verif/vsched, /verif/cmd/instrument, /verif/snap)", "serves_properties": sorted(k for k, v in CHECKS.items() if v[0] == "S"),
        "kind_free_text": "statement-level instrumented overlay build of /repo's working tree + cooperative scheduler with preemption-bounded DFS + deep-snapshot write monitor; free-running -race companion"},
       {"name": "H", "path": "/verif/cmd/vsched/c13.go", "serves_properties": sorted(k for k, v in CHECKS.items() if v[0] == "H"),
        "kind_free_text": "explicit-state BFS over call histories on real objects with snapshot-digest states"},
       {"name": "M", "path": "/verif/cmd/vcheck", "serves_properties": sorted(k for k, v in CHECKS.items() if v[0] == "M"),
        "kind_free_text": "independent reference model (grammar recogniser, precedence parser, evaluator) + bounded exhaustive enumeration of (expression, document) / token-sequence / byte-string universes, every enumerated case replayed against the real Compile/Search"},
     ],
     "checks": [],
     "not_applicable": [],
     "notes": "All checks: ./check <id> [quick|thorough]; they rebuild against /repo's working tree on every run. Known findings: /verif/known_findings.txt. Design: /verif/DESIGN.md.",
    }
    for p in props:
        pid = p["id"]
        if pid in CHECKS:
            eng, cat, tech, text, note, ref = CHECKS[pid]
            m["checks"].append({
              "property_id": pid,
              "quick_cmd": "./check %s quick" % pid,
              "thorough_cmd": "./check %s thorough" % pid,
              "evidence_file": "/verif/evidence/%s.json" % pid,
              "replay_cmd_template": "./check %s --replay {path}" % pid,
              "engine": eng,
              "level_claimed": {"category": cat, "text": text, "design_ref": ref},
              "level_note": note,
              "technique": tech,
            })
        else:
            m["not_applicable"].append({"property_id": pid, "reason": NOT_YET.get(pid, "check under construction in this session (designed in DESIGN.md section 5, not yet registered); not claimed until it runs clean on the unchanged tree")})
    json.dump(m, open(os.path.join(ROOT, "MANIFEST.json"), "w"), indent=1)
    print("MANIFEST.json: %d checks, %d not_applicable" % (len(m["checks"]), len(m["not_applicable"])))

main()
