#!/usr/bin/env python3
"""Re-run chosen quick checks against a kept negative control (seeded/NEG-*/patch.diff applied to a scratch worktree
of /repo) and update its meta.json.   usage: tools/benign_recheck.py <NEG-name> <check-id>[,<check-id>...]"""
import json, os, shutil, subprocess, sys, tempfile, time
ENV = dict(os.environ, GOFLAGS="-mod=mod", GOPROXY="off", GOSUMDB="off", GOTOOLCHAIN="local")
VERIF = os.path.dirname(os.path.dirname(os.path.abspath(__file__)))
def sh(cmd, cwd, timeout=7200, env=ENV):
    p = subprocess.run(cmd, shell=True, cwd=cwd, env=env, capture_output=True, text=True, timeout=timeout)
    return p.returncode, p.stdout + p.stderr
name, ids = sys.argv[1], sys.argv[2].split(",")
d = os.path.join(VERIF, "seeded", name)
meta = json.load(open(os.path.join(d, "meta.json")))
wt = tempfile.mkdtemp(prefix="benign-", dir="/tmp"); os.rmdir(wt)
rc, out = sh("git -C /repo worktree add --detach %s HEAD" % wt, "/"); assert rc == 0, out
try:
    rc, out = sh("git apply --whitespace=nowarn %s" % os.path.join(d, "patch.diff"), wt); assert rc == 0, out
    res = meta["result"]
    for cid in ids:
        t0 = time.time()
        rc, out = sh("./check %s quick" % cid, VERIF, env=dict(ENV, VERIF_REPO=wt))
        viol = [l for l in out.splitlines() if l.startswith("VIOLATION")]
        det = [l for l in out.splitlines() if l.startswith("violation detail")]
        res[cid] = {"exit": rc, "violations": len(viol), "seconds": round(time.time() - t0, 1), "rerun": True}
        if rc != 0 or viol:
            res[cid]["first"] = (det[0][:600] if det else out[-400:])
        print("  %s: exit %d, %d VIOLATION" % (cid, rc, len(viol)), flush=True)
    res["alarms"] = sorted(c for c, v in res.items() if isinstance(v, dict) and (v.get("exit") or v.get("violations")))
    json.dump(meta, open(os.path.join(d, "meta.json"), "w"), indent=1)
    print(name, "alarms:", res["alarms"])
finally:
    sh("git -C /repo worktree remove --force %s" % wt, "/"); shutil.rmtree(wt, ignore_errors=True)
