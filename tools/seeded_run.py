#!/usr/bin/env python3
"""Confirm a seeded defect and run the checks against it.

usage: tools/seeded_run.py <candidate-dir> <dest-name> [--checks C01,C02,...|all] [--tier quick]

<candidate-dir> holds patch.diff, demo_test.go (or demo.sh) and meta.json written by an
independent sub-agent. In a scratch git worktree of /repo (under /tmp, removed afterwards):
  1. the patch applies, the package builds and the repository's own tests pass with it;
  2. the demonstration fails with the patch and passes without it;
  3. the registered checks are run against the patched scratch tree (VERIF_REPO=..., /repo and
     /verif's evidence are not touched) and it is recorded which of them report a violation.
Only when 1 and 2 hold is the candidate kept as /verif/seeded/<dest-name>/.
"""
import json, os, shutil, subprocess, sys, tempfile, time

ENV = dict(os.environ, GOFLAGS="-mod=mod", GOPROXY="off", GOSUMDB="off", GOTOOLCHAIN="local")
VERIF = os.path.dirname(os.path.dirname(os.path.abspath(__file__)))

def sh(cmd, cwd, timeout=1800, env=ENV):
    p = subprocess.run(cmd, shell=True, cwd=cwd, env=env, capture_output=True, text=True, timeout=timeout)
    return p.returncode, (p.stdout + p.stderr)

def main():
    cand, dest = sys.argv[1], sys.argv[2]
    checks = None
    tier = "quick"
    for i, a in enumerate(sys.argv):
        if a == "--checks":
            checks = sys.argv[i + 1]
        if a == "--tier":
            tier = sys.argv[i + 1]
    meta = json.load(open(os.path.join(cand, "meta.json")))
    prop = meta.get("property", dest[:3])
    wt = tempfile.mkdtemp(prefix="seedrun-", dir="/tmp")
    os.rmdir(wt)
    rc, out = sh("git -C /repo worktree add --detach %s HEAD" % wt, "/")
    assert rc == 0, out
    result = {"confirmed": False}
    try:
        patch = os.path.abspath(os.path.join(cand, "patch.diff"))
        rc, out = sh("git apply --whitespace=nowarn %s" % patch, wt)
        if rc != 0:
            result["reject"] = "patch does not apply: " + out[-400:]
            return finish(result, cand, dest, meta, wt, keep=False)
        rc, out = sh("go build ./... && go test -count=1 ./...", wt)
        result["existing_tests_with_patch"] = "pass" if rc == 0 else "FAIL"
        if rc != 0:
            result["reject"] = "existing tests fail / build fails with the patch: " + out[-600:]
            return finish(result, cand, dest, meta, wt, keep=False)
        demo_go = os.path.join(cand, "demo_test.go")
        demo_sh = os.path.join(cand, "demo.sh")
        if os.path.exists(demo_go):
            shutil.copy(demo_go, os.path.join(wt, "zz_seeded_demo_test.go"))
            demo_cmds = ["go test -count=1 -run TestSeeded .", "go test -race -count=1 -run TestSeeded ."]
        elif os.path.exists(demo_sh):
            shutil.copy(demo_sh, os.path.join(wt, "zz_demo.sh"))
            demo_cmds = ["bash zz_demo.sh ."]
        else:
            result["reject"] = "no demonstration"
            return finish(result, cand, dest, meta, wt, keep=False)
        used = None
        for dc in demo_cmds:
            rc, out = sh(dc, wt)
            if rc != 0:
                used = dc
                result["demo_with_patch"] = "fails (as required): " + out.strip()[-300:]
                break
        if used is None:
            result["reject"] = "demonstration does not fail with the patch"
            return finish(result, cand, dest, meta, wt, keep=False)
        # without the patch
        sh("git apply -R --whitespace=nowarn %s" % patch, wt)
        rc, out = sh(used, wt)
        if rc != 0:
            # flaky / racy demos: try twice more
            rc, out = sh(used, wt)
        result["demo_without_patch"] = "passes" if rc == 0 else "FAILS: " + out[-300:]
        if rc != 0:
            result["reject"] = "demonstration also fails without the patch"
            return finish(result, cand, dest, meta, wt, keep=False)
        result["demo_cmd"] = used
        result["confirmed"] = True
        # run the checks against the patched scratch tree
        for f in ("zz_seeded_demo_test.go", "zz_demo.sh"):
            if os.path.exists(os.path.join(wt, f)):
                os.remove(os.path.join(wt, f))
        rc, out = sh("git apply --whitespace=nowarn %s" % patch, wt)
        assert rc == 0, out
        ids = [prop]
        if checks == "all":
            ids = [c["property_id"] for c in json.load(open(os.path.join(VERIF, "MANIFEST.json")))["checks"]]
        elif checks:
            ids = checks.split(",")
        caught = {}
        for cid in ids:
            t0 = time.time()
            rc, out = sh("./check %s %s" % (cid, tier), VERIF, timeout=7200, env=dict(ENV, VERIF_REPO=wt))
            viol = [l for l in out.splitlines() if l.startswith("VIOLATION")]
            detail = [l for l in out.splitlines() if l.startswith("violation detail")]
            caught[cid] = {"exit": rc, "violations": len(viol), "seconds": round(time.time() - t0, 1),
                           "first": (detail[0][:500] if detail else ""),
                           "tail": "" if rc in (0, 1) else out[-500:]}
            print("  %s %s: exit %d, %d VIOLATION line(s) in %.0fs" % (cid, tier, rc, len(viol), time.time() - t0))
        result["checks"] = caught
        result["caught_by"] = sorted(c for c, v in caught.items() if v["exit"] == 1 and v["violations"] > 0)
        return finish(result, cand, dest, meta, wt, keep=True)
    finally:
        sh("git -C /repo worktree remove --force %s" % wt, "/")
        shutil.rmtree(wt, ignore_errors=True)

def finish(result, cand, dest, meta, wt, keep):
    print(json.dumps({k: v for k, v in result.items() if k != "checks"}, indent=1))
    if keep:
        d = os.path.join(VERIF, "seeded", dest)
        os.makedirs(d, exist_ok=True)
        for f in ("patch.diff", "demo_test.go", "demo.sh"):
            if os.path.exists(os.path.join(cand, f)) and os.path.abspath(os.path.join(cand, f)) != os.path.abspath(os.path.join(d, f)):
                shutil.copy(os.path.join(cand, f), os.path.join(d, f))
        meta = dict(meta)
        meta["verification"] = result
        meta["what_was_run"] = "tools/seeded_run.py: scratch worktree of /repo HEAD; git apply patch.diff; go build ./... && go test -count=1 ./... (must pass); demo with patch (must fail) and without (must pass); then ./check <id> %s with VERIF_REPO=<scratch worktree>" % ""
        # a re-run (after the checks were strengthened) keeps what earlier runs recorded: outcomes of checks
        # not run this time, and the first-try flags
        old_path = os.path.join(d, "meta.json")
        if os.path.exists(old_path):
            try:
                old = json.load(open(old_path))
                for k, v in old.items():
                    if k.startswith("first_try"):
                        meta[k] = v
                oc = (old.get("verification") or {}).get("checks") or {}
                nc = result.setdefault("checks", {})
                for k, v in oc.items():
                    nc.setdefault(k, v)
                result["caught_by"] = sorted(c for c, v in nc.items() if v.get("exit") == 1 and v.get("violations", 0) > 0)
            except Exception:
                pass
        json.dump(meta, open(old_path, "w"), indent=1)
    return 0 if result.get("confirmed") else 1

if __name__ == "__main__":
    sys.exit(main())
