#!/bin/bash
# Builds the framework offline from files on disk (fresh restore): warms the Go
# build cache for every driver so that the checks themselves only re-link.
set -e
cd "$(dirname "$0")"
export GOFLAGS=-mod=mod GOPROXY=off GOSUMDB=off GOTOOLCHAIN=local
export GOCACHE="${GOCACHE:-$PWD/.cache/go-build}"
mkdir -p bin evidence replays
cp /repo/go.sum go.sum 2>/dev/null || true
go build -tags verif -o bin/vcheck ./cmd/vcheck
go build -o bin/instrument ./cmd/instrument
OVL="$(mktemp -d "${TMPDIR:-/tmp}/verif-ovl.XXXXXX")"
trap 'rm -rf "$OVL"' EXIT
bin/instrument -src /repo -out "$OVL" >/dev/null
go build -tags verif -overlay "$OVL/overlay.json" -o bin/vsched-setup ./cmd/vsched
go build -race -tags verif -o bin/vrace ./cmd/vrace || echo "note: -race build unavailable; C12 runs without its companion"
rm -f bin/vsched-setup
echo "setup ok"
