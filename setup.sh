#!/bin/bash
# Builds the framework offline from files on disk (fresh restore): warms the Go
# build cache for every driver so that the checks themselves only re-link.
set -e
cd "$(dirname "$0")"
export GOFLAGS=-mod=mod GOPROXY=off GOSUMDB=off GOTOOLCHAIN=local
export GOCACHE="${GOCACHE:-$PWD/.cache/go-build}"
mkdir -p bin evidence replays
cp /repo/go.sum go.sum 2>/dev/null || true
go build -tags verif -o bin/vcheck ./cmd/vcheck
go vet ./model ./univ ./harness >/dev/null 2>&1 || true
echo "setup ok"
