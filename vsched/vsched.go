// Package vsched is a cooperative scheduler and a stateless depth-first
// explorer of thread interleavings under an iterated preemption bound. Threads
// are goroutines; exactly one runs between two scheduling points; a scheduling
// point is every statement of the instrumented package (the VerifPoint hook) and
// every operation of the sync shims.
package vsched

import (
	"fmt"
	"sort"
)

// Thread is one harness thread.
type Thread struct {
	ID        int
	resume    chan struct{}
	done      bool
	blockedOn interface{}
	Result    interface{}
	Panic     interface{}
	locks     int
	xlocks    int // exclusive (write) locks only
	points    int
}

type event struct {
	t    *Thread
	kind int // 0 point, 1 finished, 2 blocked
	id   int
}

// PointRec records one scheduling decision.
type PointRec struct {
	Enabled        []int // canonical order: running thread first if still enabled, then ascending ids
	Choice         int   // index into Enabled
	RunningEnabled bool
	PointID        int // point id at which the previously running thread stopped (-1 = start/finish)
}

// Exec is the record of one complete execution.
type Exec struct {
	Points   []PointRec
	Threads  []*Thread
	Deadlock bool
	Steps    int
	SyncOps  int
}

// Choices returns the choice list of the execution.
func (x *Exec) Choices() []int {
	out := make([]int, len(x.Points))
	for i, p := range x.Points {
		out[i] = p.Choice
	}
	return out
}

// Sched runs one execution.
type Sched struct {
	threads []*Thread
	cur     *Thread
	events  chan event
	prefix  []int
	exec    *Exec
	// OnPoint, if set, is called at every point of every thread (monitor).
	OnPoint func(thread, pointID int)
	MaxSteps int
}

// ErrDiverged is raised (as a panic) when a replayed prefix does not fit.
type ErrDiverged struct{ Msg string }

func (e ErrDiverged) Error() string { return "schedule replay diverged: " + e.Msg }

// Current returns the running thread (nil outside an execution).
func (s *Sched) Current() *Thread { return s.cur }

// Point is the VerifPoint hook: the running thread yields to the scheduler.
func (s *Sched) Point(id int) {
	t := s.cur
	if t == nil {
		return // not inside a harness thread (set-up code)
	}
	t.points++
	if s.OnPoint != nil {
		s.OnPoint(t.ID, id)
	}
	s.events <- event{t, 0, id}
	<-t.resume
}

// Block is the VerifBlock hook: the running thread waits for Wake(key).
func (s *Sched) Block(key interface{}) {
	t := s.cur
	if t == nil {
		panic("vsched: Block outside a harness thread")
	}
	t.blockedOn = key
	s.events <- event{t, 2, -1}
	<-t.resume
}

// Wake is the VerifWake hook.
func (s *Sched) Wake(key interface{}) {
	for _, t := range s.threads {
		if t.blockedOn == key {
			t.blockedOn = nil
		}
	}
}

// Sync is the VerifSync hook: counts synchronisation operations and lock depth.
func (s *Sched) Sync(op string, key interface{}) {
	if s.exec != nil {
		s.exec.SyncOps++
	}
	if t := s.cur; t != nil {
		switch op {
		case "lock":
			t.locks++
			t.xlocks++
		case "rlock":
			t.locks++
		case "unlock":
			t.locks--
			t.xlocks--
		case "runlock":
			t.locks--
		}
	}
}

// LocksHeld reports the number of shim locks the running thread holds.
func (s *Sched) LocksHeld() int {
	if s.cur == nil {
		return 0
	}
	return s.cur.locks
}

// ExclusiveLocksHeld reports the number of exclusive shim locks (Mutex.Lock, RWMutex.Lock, Once) the running
// thread holds; a read lock does not license a write.
func (s *Sched) ExclusiveLocksHeld() int {
	if s.cur == nil {
		return 0
	}
	return s.cur.xlocks
}

// Go is the VerifGo hook: spawn a new thread running fn.
func (s *Sched) Go(fn func()) {
	s.spawn(func() interface{} { fn(); return nil })
}

func (s *Sched) spawn(body func() interface{}) *Thread {
	t := &Thread{ID: len(s.threads), resume: make(chan struct{})}
	s.threads = append(s.threads, t)
	go func() {
		<-t.resume
		defer func() {
			if r := recover(); r != nil {
				if d, ok := r.(ErrDiverged); ok {
					panic(d)
				}
				t.Panic = r
			}
			t.done = true
			s.events <- event{t, 1, -1}
		}()
		t.Result = body()
	}()
	return t
}

func (s *Sched) enabled(running *Thread) (ids []int, runningEnabled bool) {
	for _, t := range s.threads {
		if !t.done && t.blockedOn == nil {
			ids = append(ids, t.ID)
		}
	}
	sort.Ints(ids)
	if running != nil && !running.done && running.blockedOn == nil {
		runningEnabled = true
		out := []int{running.ID}
		for _, id := range ids {
			if id != running.ID {
				out = append(out, id)
			}
		}
		ids = out
	}
	return
}

// Run executes bodies under the given choice prefix (choice 0 afterwards).
func Run(bodies []func() interface{}, prefix []int, configure func(*Sched)) *Exec {
	s := &Sched{events: make(chan event), prefix: prefix, MaxSteps: 5_000_000}
	s.exec = &Exec{}
	if configure != nil {
		configure(s)
	}
	for _, b := range bodies {
		s.spawn(b)
	}
	var running *Thread
	lastPoint := -1
	for {
		ids, runEn := s.enabled(running)
		if len(ids) == 0 {
			unfinished := false
			for _, t := range s.threads {
				if !t.done {
					unfinished = true
				}
			}
			s.exec.Deadlock = unfinished
			break
		}
		i := len(s.exec.Points)
		choice := 0
		if i < len(prefix) {
			choice = prefix[i]
			if choice < 0 || choice >= len(ids) {
				panic(ErrDiverged{fmt.Sprintf("choice %d out of range (%d enabled) at point %d", choice, len(ids), i)})
			}
		}
		s.exec.Points = append(s.exec.Points, PointRec{Enabled: ids, Choice: choice, RunningEnabled: runEn, PointID: lastPoint})
		next := s.threads[ids[choice]]
		s.cur = next
		next.resume <- struct{}{}
		ev := <-s.events
		s.cur = nil
		running = ev.t
		lastPoint = ev.id
		s.exec.Steps++
		if s.exec.Steps > s.MaxSteps {
			panic(fmt.Sprintf("vsched: more than %d steps in one execution (livelock?)", s.MaxSteps))
		}
	}
	s.exec.Threads = s.threads
	return s.exec
}

// Explorer enumerates schedules depth-first under a preemption bound.
type Explorer struct {
	Bound     int
	MaxExecs  int64 // 0 = unlimited; hitting it makes the exploration non-exhaustive
	Execs     int64
	Steps     int64
	Capped    bool
	// NewRun builds fresh state and returns the thread bodies plus a checker
	// that is called with the finished execution (return a non-empty string to
	// report a failure).
	NewRun func() (bodies []func() interface{}, configure func(*Sched), check func(*Exec) string)
	// Failure is the first failure found (schedule + message).
	Failure     string
	FailChoices []int
	Outcomes    map[string]int
	Preemptions int // largest number of preemptions in an explored schedule
}

func preemptionsBefore(x *Exec, upto int) int {
	n := 0
	for i := 0; i < upto; i++ {
		p := x.Points[i]
		if p.RunningEnabled && p.Choice != 0 {
			n++
		}
	}
	return n
}

// Explore runs the exploration; it stops at the first failure.
func (e *Explorer) Explore() {
	if e.Outcomes == nil {
		e.Outcomes = map[string]int{}
	}
	e.explore(nil)
}

func (e *Explorer) runOnce(prefix []int) (*Exec, string) {
	bodies, conf, check := e.NewRun()
	x := Run(bodies, prefix, conf)
	e.Execs++
	e.Steps += int64(x.Steps)
	msg := ""
	if x.Deadlock {
		msg = "deadlock: no thread enabled while some thread is unfinished"
	} else if check != nil {
		msg = check(x)
	}
	return x, msg
}

func (e *Explorer) explore(prefix []int) {
	if e.Failure != "" || e.Capped {
		return
	}
	if e.MaxExecs > 0 && e.Execs >= e.MaxExecs {
		e.Capped = true
		return
	}
	x, msg := e.runOnce(prefix)
	if msg != "" {
		// a failure must reproduce identically before it is believed
		x2, msg2 := e.runOnce(x.Choices())
		x3, msg3 := e.runOnce(x.Choices())
		if msg2 != msg || msg3 != msg || len(x2.Points) != len(x.Points) || len(x3.Points) != len(x.Points) {
			panic(ErrDiverged{fmt.Sprintf("failure does not reproduce: %q / %q / %q", msg, msg2, msg3)})
		}
		e.Failure = msg
		e.FailChoices = x.Choices()
		return
	}
	if p := preemptionsBefore(x, len(x.Points)); p > e.Preemptions {
		e.Preemptions = p
	}
	for i := len(prefix); i < len(x.Points); i++ {
		p := x.Points[i]
		if len(p.Enabled) < 2 {
			continue
		}
		cost := preemptionsBefore(x, i)
		if p.RunningEnabled {
			cost++ // switching away from a runnable thread is a preemption
		}
		if cost > e.Bound {
			continue
		}
		for alt := 1; alt < len(p.Enabled); alt++ {
			np := append(append([]int{}, x.Choices()[:i]...), alt)
			e.explore(np)
			if e.Failure != "" || e.Capped {
				return
			}
		}
	}
}
