// Package impl wraps the real library (built from /repo's working tree with
// -tags verif) with panic capture.
package impl

import (
	"fmt"
	"runtime"
	"strings"

	jmespath "github.com/jmespath/go-jmespath"
)

// Panic describes a recovered panic.
type Panic struct {
	Value string
	Site  string // innermost frame inside the library
	Class string // panic class (type of the value / runtime error text without numbers)
}

func (p *Panic) Error() string { return "panic: " + p.Value + " at " + p.Site }

func capture(r interface{}) *Panic {
	p := &Panic{Value: fmt.Sprint(r)}
	pcs := make([]uintptr, 64)
	n := runtime.Callers(3, pcs)
	frames := runtime.CallersFrames(pcs[:n])
	for {
		f, more := frames.Next()
		if strings.Contains(f.Function, "go-jmespath.") && !strings.Contains(f.Function, "Verif") {
			fn := f.Function[strings.LastIndex(f.Function, "/")+1:]
			file := f.File[strings.LastIndex(f.File, "/")+1:]
			p.Site = fmt.Sprintf("%s (%s)", fn, file)
			break
		}
		if !more {
			break
		}
	}
	cls := p.Value
	// strip concrete numbers / values from runtime error texts
	var b strings.Builder
	for _, c := range cls {
		if c >= '0' && c <= '9' {
			continue
		}
		b.WriteRune(c)
	}
	cls = b.String()
	if len(cls) > 80 {
		cls = cls[:80]
	}
	p.Class = cls
	return p
}

// Compile calls jmespath.Compile, capturing panics.
func Compile(expr string) (jp *jmespath.JMESPath, err error, pn *Panic) {
	defer func() {
		if r := recover(); r != nil {
			pn = capture(r)
		}
	}()
	jp, err = jmespath.Compile(expr)
	return
}

// Search calls (*JMESPath).Search, capturing panics.
func Search(jp *jmespath.JMESPath, doc interface{}) (res interface{}, err error, pn *Panic) {
	defer func() {
		if r := recover(); r != nil {
			pn = capture(r)
		}
	}()
	res, err = jp.Search(doc)
	return
}

// SearchOnce calls the one-shot jmespath.Search, capturing panics.
func SearchOnce(expr string, doc interface{}) (res interface{}, err error, pn *Panic) {
	defer func() {
		if r := recover(); r != nil {
			pn = capture(r)
		}
	}()
	res, err = jmespath.Search(expr, doc)
	return
}

// Render is the AST render of a compiled expression with CurrentNode folded into Identity.
func Render(jp *jmespath.JMESPath) string {
	return strings.Replace(jmespath.VerifRenderAST(jmespath.VerifAST(jp)), "(CurrentNode)", "(Identity)", -1)
}

// Tokens returns the implementation's token type names and values (without EOF).
func Tokens(expr string) (types []string, values []string, err error) {
	toks, err := jmespath.VerifTokens(expr)
	for _, t := range toks {
		if t.Type == "tEOF" {
			continue
		}
		types = append(types, t.Type)
		values = append(values, t.Value)
	}
	return
}
