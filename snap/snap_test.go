package snap

import "testing"

func TestCycle(t *testing.T) {
	m := map[string]interface{}{"a": 1.0}
	m["self"] = m
	a := []interface{}{1.0, nil}
	a[1] = a
	r := Roots{{Name: "m", V: m}, {Name: "a", V: a}}
	h1 := r.Hash()
	if len(r.Lines()) == 0 || h1 != r.Hash() {
		t.Fatal("unstable")
	}
	// shared (non-cyclic) substructure is walked twice, not reported as a cycle
	sub := []interface{}{1.0}
	d := []interface{}{sub, sub}
	for _, l := range (Roots{{Name: "d", V: d}}).Lines() {
		if len(l) > 0 && l[len(l)-1] == '>' {
			t.Fatalf("false cycle: %s", l)
		}
	}
}
