// Package snap takes canonical deep snapshots of arbitrary Go values, including
// unexported fields (read-only through reflect): pointers are followed with
// cycle detection, slices are walked element by element in order up to their
// capacity (so a write into spare capacity is seen), maps by sorted key,
// interfaces by dynamic type and value, funcs and channels by code/data pointer.
package snap

import (
	"fmt"
	"hash/fnv"
	"reflect"
	"sort"
	"strconv"
	"strings"
)

type walker struct {
	lines   []string // "path = value" leaves (only when collect is set)
	collect bool
	h       uint64
	h2      uint64
	seen    map[uintptr]int
	active  map[uintptr]bool // containers on the current path (a mutated document can be cyclic)
	depth   int
}

const (
	prime1 = 1099511628211
	prime2 = 0x9E3779B97F4A7C15
)

func (w *walker) feed(s string) {
	for i := 0; i < len(s); i++ {
		w.h = (w.h ^ uint64(s[i])) * prime1
		w.h2 = (w.h2 + uint64(s[i]) + 1) * prime2
	}
	w.h = (w.h ^ 0xff) * prime1
	w.h2 = (w.h2 + 0x100) * prime2
}

func (w *walker) leaf(path func() string, val string) {
	w.feed(val)
	if w.collect {
		w.lines = append(w.lines, path()+" = "+val)
	}
}

func (w *walker) walk(v reflect.Value, path func() string) {
	if !v.IsValid() {
		w.leaf(path, "nil")
		return
	}
	w.depth++
	defer func() { w.depth-- }()
	if w.depth > 2000 {
		w.leaf(path, "<deeper than 2000 levels>")
		return
	}
	if k := v.Kind(); (k == reflect.Map || k == reflect.Slice) && !v.IsNil() && v.Len() > 0 {
		p := v.Pointer()
		if w.active == nil {
			w.active = map[uintptr]bool{}
		}
		if w.active[p] {
			w.leaf(path, "<cycle: container contains itself>")
			return
		}
		w.active[p] = true
		defer delete(w.active, p)
	}
	switch v.Kind() {
	case reflect.Bool:
		w.leaf(path, strconv.FormatBool(v.Bool()))
	case reflect.Int, reflect.Int8, reflect.Int16, reflect.Int32, reflect.Int64:
		w.leaf(path, strconv.FormatInt(v.Int(), 10))
	case reflect.Uint, reflect.Uint8, reflect.Uint16, reflect.Uint32, reflect.Uint64, reflect.Uintptr:
		w.leaf(path, strconv.FormatUint(v.Uint(), 10))
	case reflect.Float32, reflect.Float64:
		w.leaf(path, strconv.FormatFloat(v.Float(), 'g', -1, 64))
	case reflect.Complex64, reflect.Complex128:
		w.leaf(path, fmt.Sprint(v.Complex()))
	case reflect.String:
		w.leaf(path, strconv.Quote(v.String()))
	case reflect.Ptr:
		if v.IsNil() {
			w.leaf(path, "nil-ptr")
			return
		}
		p := v.Pointer()
		if n, ok := w.seen[p]; ok {
			w.leaf(path, "cycle#"+strconv.Itoa(n))
			return
		}
		w.seen[p] = len(w.seen)
		w.feed("ptr")
		w.walk(v.Elem(), func() string { return path() + "/*" })
	case reflect.Interface:
		if v.IsNil() {
			w.leaf(path, "nil")
			return
		}
		e := v.Elem()
		w.feed(e.Type().String())
		w.walk(e, func() string { return path() + "(" + e.Type().String() + ")" })
	case reflect.Slice:
		if v.IsNil() {
			w.leaf(path, "nil-slice")
			return
		}
		n, c := v.Len(), v.Cap()
		w.leaf(func() string { return path() + "/len" }, strconv.Itoa(n))
		if v.Type().Elem().Kind() == reflect.Uint8 && c <= 1<<16 {
			// byte slices (buffers): one leaf
			full := v.Slice(0, c)
			b := make([]byte, c)
			for i := 0; i < c; i++ {
				b[i] = byte(full.Index(i).Uint())
			}
			w.leaf(func() string { return path() + "/bytes[:cap]" }, strconv.Quote(string(b)))
			return
		}
		full := v
		if c > n && c-n <= 64 {
			full = v.Slice(0, c)
		}
		for i := 0; i < full.Len(); i++ {
			i := i
			w.walk(full.Index(i), func() string {
				if i >= n {
					return path() + "/[cap:" + strconv.Itoa(i) + "]"
				}
				return path() + "/[" + strconv.Itoa(i) + "]"
			})
		}
	case reflect.Array:
		for i := 0; i < v.Len(); i++ {
			i := i
			w.walk(v.Index(i), func() string { return path() + "/[" + strconv.Itoa(i) + "]" })
		}
	case reflect.Map:
		if v.IsNil() {
			w.leaf(path, "nil-map")
			return
		}
		type kv struct {
			k string
			v reflect.Value
		}
		var kvs []kv
		it := v.MapRange()
		for it.Next() {
			kvs = append(kvs, kv{keyString(it.Key()), it.Value()})
		}
		sort.Slice(kvs, func(i, j int) bool { return kvs[i].k < kvs[j].k })
		w.leaf(func() string { return path() + "/len" }, strconv.Itoa(len(kvs)))
		for _, e := range kvs {
			e := e
			w.feed(e.k)
			w.walk(e.v, func() string { return path() + "/" + e.k })
		}
	case reflect.Struct:
		t := v.Type()
		if opaque(t) {
			// synchronisation objects (sync.Mutex, sync.Once, sync.Pool, atomic.*, the
			// scheduler shims) are not data: their internal state legitimately changes
			w.leaf(path, "<"+t.String()+">")
			return
		}
		for i := 0; i < v.NumField(); i++ {
			i := i
			w.walk(v.Field(i), func() string { return path() + "." + t.Field(i).Name })
		}
	case reflect.Func, reflect.Chan, reflect.UnsafePointer:
		if v.IsNil() {
			w.leaf(path, "nil-"+v.Kind().String())
			return
		}
		w.leaf(path, v.Kind().String()+"@"+strconv.FormatUint(uint64(v.Pointer()), 16))
	default:
		w.leaf(path, "?"+v.Kind().String())
	}
}

func opaque(t reflect.Type) bool {
	switch t.PkgPath() {
	case "sync", "sync/atomic":
		return true
	}
	return strings.HasPrefix(t.Name(), "verif")
}

func keyString(k reflect.Value) string {
	switch k.Kind() {
	case reflect.String:
		return strconv.Quote(k.String())
	case reflect.Int, reflect.Int8, reflect.Int16, reflect.Int32, reflect.Int64:
		return fmt.Sprintf("%020d", k.Int()+(1<<62))
	case reflect.Uint, reflect.Uint8, reflect.Uint16, reflect.Uint32, reflect.Uint64:
		return fmt.Sprintf("%020d", k.Uint())
	case reflect.Interface:
		if k.IsNil() {
			return "nil"
		}
		return k.Elem().Type().String() + ":" + keyString(k.Elem())
	}
	return fmt.Sprint(k)
}

// Digest is a 128-bit canonical digest of the named roots.
type Digest struct{ A, B uint64 }

// Roots is a named set of values to snapshot together (cycle detection and
// pointer identity are shared across roots).
type Roots []Root

// Root is one named value.
type Root struct {
	Name string
	V    interface{}
}

// Hash digests the roots. A root that is plain JSON data (nil, bool, float64, string, []interface{},
// map[string]interface{}, nothing else, at most 200 levels) is digested by a type-switch walker without
// reflection (the write monitors hash documents at every statement); any other root by the reflective
// walker. Which walker is used is a function of the value alone, so equal values have equal digests.
func (r Roots) Hash() Digest {
	w := &walker{h: fnv.New64a().Sum64(), h2: 7, seen: map[uintptr]int{}}
	for _, root := range r {
		name := root.Name
		w.feed(name)
		h, h2 := w.h, w.h2
		if w.fast(root.V, 0) {
			continue
		}
		w.h, w.h2 = h, h2
		w.feed("reflective")
		w.walk(reflect.ValueOf(root.V), func() string { return name })
	}
	return Digest{w.h, w.h2}
}

// fast digests plain JSON data; false = not plain JSON data (the caller falls back to the reflective walker).
func (w *walker) fast(v interface{}, depth int) bool {
	if depth > 200 {
		return false
	}
	switch x := v.(type) {
	case nil:
		w.feed("nil")
	case bool:
		if x {
			w.feed("true")
		} else {
			w.feed("false")
		}
	case float64:
		var buf [32]byte
		w.feed(string(strconv.AppendFloat(buf[:0], x, 'g', -1, 64)))
	case string:
		w.feed("s")
		w.feed(x)
	case []interface{}:
		if x == nil {
			w.feed("nil-slice")
			return true
		}
		n, c := len(x), cap(x)
		w.feed("[")
		w.feed(strconv.Itoa(n))
		full := x
		if c > n && c-n <= 64 {
			full = x[:c] // spare capacity is part of the snapshot: a write beyond len is a write
		}
		for _, e := range full {
			if !w.fast(e, depth+1) {
				return false
			}
		}
		w.feed("]")
	case map[string]interface{}:
		if x == nil {
			w.feed("nil-map")
			return true
		}
		keys := make([]string, 0, len(x))
		for k := range x {
			keys = append(keys, k)
		}
		sort.Strings(keys)
		w.feed("{")
		for _, k := range keys {
			w.feed(k)
			if !w.fast(x[k], depth+1) {
				return false
			}
		}
		w.feed("}")
	default:
		return false
	}
	return true
}

// Lines renders the roots as sorted "path = value" leaves.
func (r Roots) Lines() []string {
	w := &walker{collect: true, seen: map[uintptr]int{}}
	for _, root := range r {
		name := root.Name
		w.walk(reflect.ValueOf(root.V), func() string { return name })
	}
	return w.lines
}

// Diff lists the leaves that differ between two renderings.
func Diff(before, after []string) []string {
	b := map[string]bool{}
	for _, l := range before {
		b[l] = true
	}
	a := map[string]bool{}
	for _, l := range after {
		a[l] = true
	}
	var out []string
	for _, l := range before {
		if !a[l] {
			out = append(out, "- "+l)
		}
	}
	for _, l := range after {
		if !b[l] {
			out = append(out, "+ "+l)
		}
	}
	if len(out) > 12 {
		out = append(out[:12], fmt.Sprintf("… %d more", len(out)-12))
	}
	return out
}

// Text joins lines.
func Text(lines []string) string { return strings.Join(lines, "\n") }

// Lines2 renders one value (at most 12 leaves) for reports.
func Lines2(v interface{}) []string {
	l := Roots{{Name: "doc", V: v}}.Lines()
	if len(l) > 12 {
		l = append(l[:12], "…")
	}
	return l
}
