// Package harness is the shared plumbing of the checks: violation records with
// cause signatures, the known-findings file, replay artefacts, evidence files
// and a sharded worker pool.
package harness

import (
	"bufio"
	"crypto/sha1"
	"encoding/hex"
	"encoding/json"
	"fmt"
	"os"
	"path/filepath"
	"regexp"
	"runtime"
	"sort"
	"strconv"
	"strings"
	"sync"
	"sync/atomic"
	"time"
)

// Root is the /verif directory (overridable for tests).
var Root = func() string {
	if r := os.Getenv("VERIF_ROOT"); r != "" {
		return r
	}
	return "/verif"
}()

// Violation is one property violation with a cause signature.
type Violation struct {
	Property  string                 `json:"property"`
	Kind      string                 `json:"kind"`
	Signature string                 `json:"signature"`
	Input     map[string]interface{} `json:"input"`
	Expected  string                 `json:"expected"`
	Observed  string                 `json:"observed"`
	Site      string                 `json:"site,omitempty"`
	Count     int64                  `json:"occurrences"`
	GoTest    string                 `json:"go_test,omitempty"`
}

type finding struct {
	prop string
	re   *regexp.Regexp
	text string
	line string
}

// Run is one execution of a check.
type Run struct {
	Prop  string
	Tier  string
	Seed  int64
	Level string
	start time.Time

	mu       sync.Mutex
	viol     map[string]*Violation
	order    []string
	findings []finding
	samples  []interface{}
	notes    map[string]interface{}

	Evaluations int64 // cases executed against the implementation
	Nontrivial  int64 // distinct non-trivial cases (by the check's rule)
	States      int64
	Transitions int64
	Traces      int64
	GapCases    int64
	capped      int32
	capNote     string
	Rule        string
	Assumptions []string
	Deadline    time.Time
}

// Start creates a run from the environment (VERIF_TIER, VERIF_SEED).
func Start(prop, tier string) *Run {
	if tier == "" {
		tier = os.Getenv("VERIF_TIER")
	}
	if tier != "thorough" {
		tier = "quick"
	}
	seed, _ := strconv.ParseInt(os.Getenv("VERIF_SEED"), 10, 64)
	r := &Run{Prop: prop, Tier: tier, Seed: seed, Level: "model_checking", start: time.Now(),
		viol: map[string]*Violation{}, notes: map[string]interface{}{}}
	r.loadFindings()
	if d := os.Getenv("VERIF_BUDGET_S"); d != "" {
		if s, err := strconv.Atoi(d); err == nil && s > 0 {
			r.Deadline = r.start.Add(time.Duration(s) * time.Second)
		}
	}
	return r
}

// Thorough reports the tier.
func (r *Run) Thorough() bool { return r.Tier == "thorough" }

// OverBudget reports whether an (optional, externally requested) time budget is
// exhausted; a check that stops because of it reports exhaustive=false and
// still exits 0 when nothing was violated. It is never a verdict.
func (r *Run) OverBudget() bool {
	if r.Deadline.IsZero() {
		return false
	}
	if time.Now().After(r.Deadline) {
		r.Cap("time budget VERIF_BUDGET_S reached")
		return true
	}
	return false
}

// Cap records that some bound was hit, so the run is not exhaustive.
func (r *Run) Cap(note string) {
	if atomic.CompareAndSwapInt32(&r.capped, 0, 1) {
		r.mu.Lock()
		r.capNote = note
		r.mu.Unlock()
	}
}

// Note attaches an extra key to the evidence coverage object.
func (r *Run) Note(key string, v interface{}) {
	r.mu.Lock()
	r.notes[key] = v
	r.mu.Unlock()
}

// Sample records one explored case (the first few are kept).
func (r *Run) Sample(v interface{}) {
	r.mu.Lock()
	if len(r.samples) < 16 {
		r.samples = append(r.samples, v)
	}
	r.mu.Unlock()
}

func (r *Run) loadFindings() {
	f, err := os.Open(filepath.Join(Root, "known_findings.txt"))
	if err != nil {
		return
	}
	defer f.Close()
	sc := bufio.NewScanner(f)
	sc.Buffer(make([]byte, 1<<20), 1<<20)
	for sc.Scan() {
		line := strings.TrimSpace(sc.Text())
		if !strings.HasPrefix(line, "finding:") {
			continue // comments and "fixed:" lines suppress nothing
		}
		rest := strings.TrimSpace(strings.TrimPrefix(line, "finding:"))
		parts := strings.SplitN(rest, " -- ", 2)
		text := ""
		if len(parts) == 2 {
			text = parts[1]
		}
		var prop, match string
		for _, f := range strings.Fields(parts[0]) {
			if strings.HasPrefix(f, "property=") {
				prop = strings.TrimPrefix(f, "property=")
			}
		}
		if i := strings.Index(parts[0], "match="); i >= 0 {
			match = strings.TrimSpace(parts[0][i+len("match="):])
		}
		if prop == "" || match == "" {
			fmt.Fprintf(os.Stderr, "known_findings.txt: ignoring malformed line: %s\n", line)
			continue
		}
		re, err := regexp.Compile(match)
		if err != nil {
			fmt.Fprintf(os.Stderr, "known_findings.txt: bad match %q: %v\n", match, err)
			continue
		}
		r.findings = append(r.findings, finding{prop, re, text, line})
	}
}

// Report records a violation; violations with the same signature are merged.
func (r *Run) Report(v Violation) {
	v.Property = r.Prop
	r.mu.Lock()
	defer r.mu.Unlock()
	if old, ok := r.viol[v.Signature]; ok {
		old.Count++
		return
	}
	v.Count = 1
	vv := v
	r.viol[v.Signature] = &vv
	r.order = append(r.order, v.Signature)
}

// ViolationCount is the number of distinct signatures so far.
func (r *Run) ViolationCount() int {
	r.mu.Lock()
	defer r.mu.Unlock()
	return len(r.viol)
}

const maxReported = 25

// Coverage is what a check hands to Finish.
type Coverage struct {
	Exhaustive bool
	Bounds     map[string]interface{}
	Outcomes   int64 // distinct observed outcomes (exposes vacuous runs)
}

// Finish writes the evidence file, prints KNOWN-FINDING / VIOLATION lines and
// returns the process exit status.
func (r *Run) Finish(cov Coverage) int {
	wall := time.Since(r.start).Seconds()
	exit := 0
	known := []string{}
	newViol := 0
	sigs := append([]string{}, r.order...)
	sort.Slice(sigs, func(i, j int) bool {
		if len(sigs[i]) != len(sigs[j]) {
			return len(sigs[i]) < len(sigs[j])
		}
		return sigs[i] < sigs[j]
	})
	os.MkdirAll(filepath.Join(Root, "replays"), 0o755)
	type hit struct {
		sigs  int
		count int64
		first *Violation
	}
	hits := map[int]*hit{}
	for _, sig := range sigs {
		v := r.viol[sig]
		matched := false
		for fi, f := range r.findings {
			if f.prop == r.Prop && f.re.MatchString(sig) {
				matched = true
				h := hits[fi]
				if h == nil {
					h = &hit{first: v}
					hits[fi] = h
				}
				h.sigs++
				h.count += v.Count
				known = append(known, sig)
				break
			}
		}
		if matched {
			continue
		}
		newViol++
		if newViol > maxReported {
			continue
		}
		h := sha1.Sum([]byte(sig))
		path := filepath.Join(Root, "replays", fmt.Sprintf("%s-%s.json", r.Prop, hex.EncodeToString(h[:6])))
		js, _ := json.MarshalIndent(v, "", " ")
		os.WriteFile(path, js, 0o644)
		fmt.Printf("violation detail: kind=%s signature=%s input=%s expected=%s observed=%s site=%s occurrences=%d\n",
			v.Kind, sig, compact(v.Input), v.Expected, v.Observed, v.Site, v.Count)
		fmt.Printf("VIOLATION property=%s replay=%s\n", r.Prop, path)
		exit = 1
	}
	if newViol > maxReported {
		fmt.Printf("... and %d more distinct violation signatures (only the first %d are written out)\n", newViol-maxReported, maxReported)
	}
	for fi, f := range r.findings {
		if h := hits[fi]; h != nil {
			fmt.Printf("KNOWN-FINDING: property=%s %s [%d signature(s), %d occurrence(s), e.g. %s: %s]\n", r.Prop, f.text, h.sigs, h.count, h.first.Signature, compact(h.first.Input))
		}
	}
	exhaustive := cov.Exhaustive && atomic.LoadInt32(&r.capped) == 0
	coverage := map[string]interface{}{
		"states":                        max64(r.States, 1),
		"transitions":                   max64(r.Transitions, 1),
		"traces_validated_against_impl": r.Traces,
		"evaluations":                   max64(r.Evaluations, 1),
		"distinct_nontrivial":           r.Nontrivial,
		"rule":                          r.Rule,
		"samples":                       r.samples,
		"exhaustive":                    exhaustive,
		"bounds_completed":              cov.Bounds,
		"distinct_outcomes":             cov.Outcomes,
		"gap_cases":                     r.GapCases,
		"known_findings_hit":            known,
		"new_violations":                newViol,
		"workers":                       Workers(),
	}
	if r.capNote != "" {
		coverage["cap"] = r.capNote
	}
	for k, v := range r.notes {
		coverage[k] = v
	}
	if len(r.samples) == 0 {
		coverage["samples"] = []interface{}{"(no case explored)"}
	}
	ev := map[string]interface{}{
		"property_id": r.Prop,
		"tier":        r.Tier,
		"seed":        r.Seed,
		"level":       r.Level,
		"coverage":    coverage,
		"assumptions": r.Assumptions,
		"wall_s":      wall,
		"violations":  newViol,
	}
	os.MkdirAll(filepath.Join(Root, "evidence"), 0o755)
	js, _ := json.MarshalIndent(ev, "", " ")
	if err := os.WriteFile(filepath.Join(Root, "evidence", r.Prop+".json"), append(js, '\n'), 0o644); err != nil {
		fmt.Fprintln(os.Stderr, "cannot write evidence:", err)
		return 2
	}
	fmt.Printf("%s %s: evaluations=%d nontrivial=%d states=%d transitions=%d traces=%d gaps=%d exhaustive=%v violations=%d known=%d wall=%.1fs\n",
		r.Prop, r.Tier, r.Evaluations, r.Nontrivial, r.States, r.Transitions, r.Traces, r.GapCases, exhaustive, newViol, len(known), wall)
	return exit
}

func max64(a, b int64) int64 {
	if a > b {
		return a
	}
	return b
}

func compact(v interface{}) string {
	js, _ := json.Marshal(v)
	s := string(js)
	if len(s) > 300 {
		s = s[:300] + "…"
	}
	return s
}

// Workers is the number of parallel workers.
func Workers() int {
	if s := os.Getenv("VERIF_WORKERS"); s != "" {
		if n, err := strconv.Atoi(s); err == nil && n > 0 {
			return n
		}
	}
	n := runtime.NumCPU()
	if n > 16 {
		n = 16
	}
	return n
}

// Parallel runs fn(worker, index) for index in [0,n) on the worker pool, in
// chunks handed out in order (simplest-first universes stay roughly ordered).
func Parallel(n int, fn func(worker, index int)) {
	if n <= 0 {
		return
	}
	w := Workers()
	var next int64
	chunk := int64(n/(w*64) + 1)
	var wg sync.WaitGroup
	for i := 0; i < w; i++ {
		wg.Add(1)
		go func(worker int) {
			defer wg.Done()
			for {
				lo := atomic.AddInt64(&next, chunk) - chunk
				if lo >= int64(n) {
					return
				}
				hi := lo + chunk
				if hi > int64(n) {
					hi = int64(n)
				}
				for j := lo; j < hi; j++ {
					fn(worker, int(j))
				}
			}
		}(i)
	}
	wg.Wait()
}

// Fatal reports a tooling error (not a violation) and exits with status 2.
func Fatal(format string, a ...interface{}) {
	fmt.Fprintf(os.Stderr, "TOOLING-ERROR: "+format+"\n", a...)
	os.Exit(2)
}

// Counter is a per-worker counter set merged at the end (avoids contention).
type Counter struct {
	vals []paddedInt
}

type paddedInt struct {
	v int64
	_ [7]int64
}

// NewCounter makes a counter with one slot per worker.
func NewCounter() *Counter { return &Counter{vals: make([]paddedInt, Workers()+1)} }

// Add adds to worker w's slot.
func (c *Counter) Add(w int, d int64) { c.vals[w].v += d }

// Sum is the total.
func (c *Counter) Sum() int64 {
	var s int64
	for i := range c.vals {
		s += c.vals[i].v
	}
	return s
}

// AtomicAdd adds to a shared counter.
func AtomicAdd(p *int64, d int64) { atomic.AddInt64(p, d) }

// Violations returns the violations recorded so far (used by side passes).
func (r *Run) Violations() []Violation {
	r.mu.Lock()
	defer r.mu.Unlock()
	out := []Violation{}
	for _, sig := range r.order {
		out = append(out, *r.viol[sig])
	}
	return out
}

// Samples returns the recorded samples.
func (r *Run) Samples() []interface{} {
	r.mu.Lock()
	defer r.mu.Unlock()
	return append([]interface{}{}, r.samples...)
}
