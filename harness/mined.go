package harness

// Constant mining: the size thresholds that matter to the code under test are
// written in its source (a cache capacity, a nesting limit, a "small input" cut-off
// of a sort, a pool size). The enumerated universes therefore take their *sizes*
// (repetition counts, array lengths, history lengths, argument counts) not only
// from a fixed list but also from the integer literals of the CURRENT tree, each
// with its two neighbours. The derivation is deterministic (a function of the
// tree), so a run is still an exhaustive enumeration of a stated finite universe;
// a change that introduces a new threshold widens the universe to that threshold.

import (
	"go/scanner"
	"go/token"
	"os"
	"path/filepath"
	"sort"
	"strconv"
	"strings"
	"sync"
)

// RepoDir is the directory of the tree under test (the same tree the drivers are
// compiled against: ./check exports VERIF_REPO_DIR).
func RepoDir() string {
	if d := os.Getenv("VERIF_REPO_DIR"); d != "" {
		return d
	}
	return "/repo"
}

var (
	minedOnce sync.Once
	minedInts []int
)

// MinedInts returns the distinct integer literals v (2 <= v <= 1<<20) of the
// non-test Go files of the package under test and of cmd/jpgo, ascending.
// Generated stringer files and the hook file are skipped.
func MinedInts() []int {
	minedOnce.Do(func() {
		seen := map[int]bool{}
		for _, dir := range []string{RepoDir(), filepath.Join(RepoDir(), "cmd", "jpgo")} {
			files, _ := filepath.Glob(filepath.Join(dir, "*.go"))
			for _, f := range files {
				base := filepath.Base(f)
				if strings.HasSuffix(base, "_test.go") || strings.HasSuffix(base, "_string.go") || strings.HasPrefix(base, "verif_") || strings.HasPrefix(base, "zz") {
					continue
				}
				src, err := os.ReadFile(f)
				if err != nil {
					continue
				}
				fset := token.NewFileSet()
				var s scanner.Scanner
				s.Init(fset.AddFile(f, fset.Base(), len(src)), src, nil, 0)
				for {
					_, tok, lit := s.Scan()
					if tok == token.EOF {
						break
					}
					if tok != token.INT {
						continue
					}
					v, err := strconv.ParseInt(strings.Replace(lit, "_", "", -1), 0, 64)
					if err != nil || v < 2 || v > 1<<20 {
						continue
					}
					seen[int(v)] = true
				}
			}
		}
		for v := range seen {
			minedInts = append(minedInts, v)
		}
		sort.Ints(minedInts)
	})
	return minedInts
}

// Sizes returns base ∪ {v-1, v, v+1 : v mined}, restricted to [lo, hi], ascending.
func Sizes(base []int, lo, hi int) []int {
	seen := map[int]bool{}
	var out []int
	add := func(v int) {
		if v >= lo && v <= hi && !seen[v] {
			seen[v] = true
			out = append(out, v)
		}
	}
	for _, v := range base {
		add(v)
	}
	for _, v := range MinedInts() {
		add(v - 1)
		add(v)
		add(v + 1)
	}
	sort.Ints(out)
	return out
}
