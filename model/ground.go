package model

import (
	"encoding/json"
	"fmt"
	"os"
	"path/filepath"
	"sort"
)

type complianceSuite struct {
	Given interface{}
	Cases []struct {
		Expression string
		Result     interface{}
		Error      string
	}
}

// Ground replays the official compliance corpus through the model (Lex, G, P, E).
// Every case must get the official answer; otherwise the model is not trusted and
// checks refuse to run (a tooling error, never a violation).
func Ground(dir string) (cases int, problems []string) {
	files, _ := filepath.Glob(filepath.Join(dir, "*.json"))
	sort.Strings(files)
	if len(files) == 0 {
		return 0, []string{"no corpus files in " + dir}
	}
	rec := &Recogniser{}
	for _, f := range files {
		data, err := os.ReadFile(f)
		if err != nil {
			problems = append(problems, err.Error())
			continue
		}
		var suites []complianceSuite
		if err := json.Unmarshal(data, &suites); err != nil {
			problems = append(problems, f+": "+err.Error())
			continue
		}
		for _, s := range suites {
			for _, c := range s.Cases {
				cases++
				where := fmt.Sprintf("%s: %q", filepath.Base(f), c.Expression)
				wantErr := c.Error != ""
				toks, lerr := Lex(c.Expression)
				if lerr != nil {
					if !wantErr {
						problems = append(problems, where+": model lexer rejects")
					}
					continue
				}
				g := rec.Accepts(Kinds(toks))
				ast, strict, perr := Parse(toks)
				if g != (perr == nil && strict) {
					problems = append(problems, fmt.Sprintf("%s: G=%v but P err=%v strict=%v", where, g, perr, strict))
					continue
				}
				if !g {
					if !wantErr {
						problems = append(problems, where+": model grammar rejects")
					}
					continue
				}
				outs := Outcomes(ast, s.Given, nil)
				if wantErr {
					for _, o := range outs {
						if o.Err != ErrEval {
							problems = append(problems, fmt.Sprintf("%s: want error, model gives %s (%v)", where, Canon(o.Val), o.Err))
						}
					}
					continue
				}
				ok := false
				for _, o := range outs {
					if o.Err == ErrGap || (o.Err == nil && Match(c.Result, o.Val)) {
						ok = true // a gap gives no verdict, also not against the corpus
					}
				}
				if !ok {
					desc := ""
					for _, o := range outs {
						desc += fmt.Sprintf(" %s(%v)", Canon(o.Val), o.Err)
					}
					js, _ := json.Marshal(c.Result)
					problems = append(problems, fmt.Sprintf("%s: want %s, model outcomes:%s", where, js, desc))
				}
			}
		}
	}
	return cases, problems
}
