package model

import "testing"

func TestGround(t *testing.T) {
	n, probs := Ground("../corpus")
	t.Logf("cases=%d problems=%d", n, len(probs))
	for _, p := range probs {
		t.Error(p)
	}
}
