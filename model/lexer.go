package model

import (
	"errors"
	"unicode/utf8"
)

// Lex is the reference lexer for expression text. It is used to ground the
// model on the official compliance corpus and to check spellings; malformed
// input is an error (never a guess).
func Lex(s string) ([]Tok, error) {
	var out []Tok
	i := 0
	n := len(s)
	for i < n {
		c := s[i]
		switch {
		case c == ' ' || c == '\t' || c == '\n' || c == '\r':
			i++
		case c == '_' || (c >= 'a' && c <= 'z') || (c >= 'A' && c <= 'Z'):
			j := i + 1
			for j < n && isWordByte(s[j]) {
				j++
			}
			out = append(out, Tok{UID, s[i:j]})
			i = j
		case c == '-' || (c >= '0' && c <= '9'):
			j := i + 1
			for j < n && s[j] >= '0' && s[j] <= '9' {
				j++
			}
			if c == '-' && j == i+1 {
				return nil, errors.New("bare minus")
			}
			out = append(out, Tok{NUM, s[i:j]})
			i = j
		case c == '"' || c == '\'' || c == '`':
			j := i + 1
			for j < n && s[j] != c {
				if s[j] == '\\' {
					j++
				}
				j++
			}
			if j >= n {
				return nil, errors.New("unclosed delimiter")
			}
			k := map[byte]Kind{'"': QID, '\'': RAW, '`': LIT}[c]
			out = append(out, Tok{k, s[i : j+1]})
			i = j + 1
		case c == '[':
			if i+1 < n && s[i+1] == '?' {
				out = append(out, Fixed(FILTER))
				i += 2
			} else if i+1 < n && s[i+1] == ']' {
				out = append(out, Fixed(FLATTEN))
				i += 2
			} else {
				out = append(out, Fixed(LBRACKET))
				i++
			}
		case c == '|':
			if i+1 < n && s[i+1] == '|' {
				out = append(out, Fixed(OR))
				i += 2
			} else {
				out = append(out, Fixed(PIPE))
				i++
			}
		case c == '&':
			if i+1 < n && s[i+1] == '&' {
				out = append(out, Fixed(AND))
				i += 2
			} else {
				out = append(out, Fixed(AMP))
				i++
			}
		case c == '<' || c == '>' || c == '!' || c == '=':
			if i+1 < n && s[i+1] == '=' {
				out = append(out, Tok{CMP, s[i : i+2]})
				i += 2
			} else if c == '!' {
				out = append(out, Fixed(NOT))
				i++
			} else if c == '=' {
				return nil, errors.New("single =")
			} else {
				out = append(out, Tok{CMP, s[i : i+1]})
				i++
			}
		default:
			single := map[byte]Kind{'.': DOT, '*': STAR, ',': COMMA, ':': COLON, '{': LBRACE, '}': RBRACE,
				']': RBRACKET, '(': LPAREN, ')': RPAREN, '@': CUR}
			if k, ok := single[c]; ok {
				out = append(out, Fixed(k))
				i++
				continue
			}
			_, w := utf8.DecodeRuneInString(s[i:])
			_ = w
			return nil, errors.New("unknown character")
		}
	}
	return out, nil
}

// Kinds projects a token sequence on its kinds.
func Kinds(toks []Tok) []Kind {
	ks := make([]Kind, len(toks))
	for i, t := range toks {
		ks[i] = t.Kind
	}
	return ks
}
