package model

import (
	"errors"
	"math"
	"sort"
	"strconv"
	"strings"
)

// Model JSON values are nil, bool, float64, string, []interface{} and
// map[string]interface{}. Two internal values can additionally appear:
// *Closure (an expression reference) and TextOf (the JSON text of a value, whose
// exact spelling the specification does not fix).

// Closure is the value of &expr.
type Closure struct{ Node *Node }

// TextOf is "some JSON text that decodes to V" (result of to_string on a non-string).
type TextOf struct{ V interface{} }

// ErrEval is any evaluation error the specification demands (kinds are not compared, gap G6).
var ErrEval = errors.New("evaluation error")

// ErrGap: the specification / property text does not pin the outcome down; no verdict.
var ErrGap = errors.New("verdict gap")

// Bomb is a literal value that makes evaluation record that it was reached (used by C11).
type Bomb struct{}

// Eval is one run of the big-step evaluator under a fixed vector of choices for
// unordered (object member) iteration.
type Eval struct {
	choices []int // chosen permutation index at each unordered iteration
	arity   []int // number of permutations that were available there
	pos     int
	Steps   int64
	BombHit bool
}

func fact(n int) int {
	f := 1
	for i := 2; i <= n; i++ {
		f *= i
	}
	return f
}

// order returns the member names of m in the order chosen by the oracle.
func (ev *Eval) order(m map[string]interface{}) []string {
	keys := make([]string, 0, len(m))
	for k := range m {
		keys = append(keys, k)
	}
	sort.Strings(keys)
	if len(keys) < 2 {
		return keys
	}
	if len(keys) > 6 {
		// never reached by the universes (objects have at most 3 members)
		return keys
	}
	nperm := fact(len(keys))
	c := 0
	if ev.pos < len(ev.choices) {
		c = ev.choices[ev.pos]
	} else {
		ev.choices = append(ev.choices, 0)
	}
	if ev.pos < len(ev.arity) {
		ev.arity[ev.pos] = nperm
	} else {
		ev.arity = append(ev.arity, nperm)
	}
	ev.pos++
	// decode permutation index c (factorial number system)
	out := make([]string, 0, len(keys))
	rest := append([]string{}, keys...)
	for n := len(rest); n > 0; n-- {
		f := fact(n - 1)
		i := c / f
		c %= f
		out = append(out, rest[i])
		rest = append(rest[:i], rest[i+1:]...)
	}
	return out
}

// Outcome of one admissible evaluation.
type Outcome struct {
	Val interface{}
	Err error // nil, ErrEval or ErrGap
}

// Outcomes enumerates every admissible outcome of evaluating n on doc (all
// choice vectors, odometer DFS). steps accumulates evaluation steps.
func Outcomes(n *Node, doc interface{}, steps *int64) []Outcome {
	ev := &Eval{}
	v, err := ev.Eval(n, doc)
	if steps != nil {
		*steps += ev.Steps
	}
	if ev.pos == 0 {
		return []Outcome{{v, err}} // deterministic: no unordered iteration was met
	}
	outs := []Outcome{{v, err}}
	seen := map[string]bool{outcomeKey(v, err): true}
	for {
		// next choice vector
		choices := ev.choices[:ev.pos]
		arity := ev.arity[:ev.pos]
		i := len(choices) - 1
		for ; i >= 0; i-- {
			if choices[i]+1 < arity[i] {
				choices = append([]int{}, choices[:i+1]...)
				choices[i]++
				break
			}
		}
		if i < 0 {
			return outs
		}
		ev = &Eval{choices: choices}
		v, err = ev.Eval(n, doc)
		if steps != nil {
			*steps += ev.Steps
		}
		if key := outcomeKey(v, err); !seen[key] {
			seen[key] = true
			outs = append(outs, Outcome{v, err})
		}
	}
}

func outcomeKey(v interface{}, err error) string {
	switch err {
	case nil:
		return "V" + Canon(v)
	case ErrGap:
		return "G"
	}
	return "E"
}

// Truthy is the JMESPath truth definition.
func Truthy(v interface{}) bool {
	switch x := v.(type) {
	case nil:
		return false
	case bool:
		return x
	case string:
		return x != ""
	case []interface{}:
		return len(x) > 0
	case map[string]interface{}:
		return len(x) > 0
	}
	return true
}

// DeepEqual is JSON deep equality (never equal across types).
func DeepEqual(a, b interface{}) bool { return deepEqual(a, b, 0) }

// deepEqual is depth-guarded: an implementation result can be cyclic after a
// (seeded) aliasing defect; beyond 1000 levels the values count as different.
func deepEqual(a, b interface{}, depth int) bool {
	if depth > 1000 {
		return false
	}
	switch x := a.(type) {
	case nil:
		return b == nil
	case bool:
		y, ok := b.(bool)
		return ok && x == y
	case float64:
		y, ok := b.(float64)
		return ok && x == y
	case string:
		y, ok := b.(string)
		return ok && x == y
	case []interface{}:
		y, ok := b.([]interface{})
		if !ok || len(x) != len(y) {
			return false
		}
		for i := range x {
			if !deepEqual(x[i], y[i], depth+1) {
				return false
			}
		}
		return true
	case map[string]interface{}:
		y, ok := b.(map[string]interface{})
		if !ok || len(x) != len(y) {
			return false
		}
		for k, xv := range x {
			yv, ok := y[k]
			if !ok || !deepEqual(xv, yv, depth+1) {
				return false
			}
		}
		return true
	}
	return false
}

func isInternal(v interface{}) bool {
	switch v.(type) {
	case *Closure, TextOf, Bomb:
		return true
	}
	return false
}

// Eval evaluates node n with current value v.
func (ev *Eval) Eval(n *Node, v interface{}) (interface{}, error) {
	ev.Steps++
	switch n.Type {
	case NField:
		if m, ok := v.(map[string]interface{}); ok {
			return m[n.Name], nil
		}
		return nil, nil
	case NIdentity:
		return v, nil
	case NLiteral:
		if _, ok := n.Value.(Bomb); ok {
			ev.BombHit = true
			return nil, ErrEval
		}
		return n.Value, nil
	case NSub, NIndexExpr, NPipe:
		l, err := ev.Eval(n.Children[0], v)
		if err != nil {
			return nil, err
		}
		return ev.Eval(n.Children[1], l)
	case NIndex:
		a, ok := v.([]interface{})
		if !ok {
			return nil, nil
		}
		k := n.Index
		if k < 0 {
			k += len(a)
		}
		if k < 0 || k >= len(a) {
			return nil, nil
		}
		return a[k], nil
	case NSlice:
		a, ok := v.([]interface{})
		if !ok {
			return nil, nil
		}
		idx, err := SliceIndices(len(a), n.Slice[0], n.Slice[1], n.Slice[2])
		if err != nil {
			return nil, err
		}
		out := make([]interface{}, 0, len(idx))
		for _, i := range idx {
			out = append(out, a[i])
		}
		return out, nil
	case NFlatten:
		l, err := ev.Eval(n.Children[0], v)
		if err != nil {
			return nil, err
		}
		a, ok := l.([]interface{})
		if !ok {
			return nil, nil
		}
		out := []interface{}{}
		for _, e := range a {
			if ea, ok := e.([]interface{}); ok {
				out = append(out, ea...)
			} else {
				out = append(out, e)
			}
		}
		return out, nil
	case NProjection:
		l, err := ev.Eval(n.Children[0], v)
		if err != nil {
			return nil, err
		}
		a, ok := l.([]interface{})
		if !ok {
			return nil, nil
		}
		out := []interface{}{}
		for _, e := range a {
			x, err := ev.Eval(n.Children[1], e)
			if err != nil {
				return nil, err
			}
			if x != nil {
				out = append(out, x)
			}
		}
		return out, nil
	case NValueProjection:
		l, err := ev.Eval(n.Children[0], v)
		if err != nil {
			return nil, err
		}
		m, ok := l.(map[string]interface{})
		if !ok {
			return nil, nil
		}
		out := []interface{}{}
		for _, k := range ev.order(m) {
			x, err := ev.Eval(n.Children[1], m[k])
			if err != nil {
				return nil, err
			}
			if x != nil {
				out = append(out, x)
			}
		}
		return out, nil
	case NFilterProjection:
		l, err := ev.Eval(n.Children[0], v)
		if err != nil {
			return nil, err
		}
		a, ok := l.([]interface{})
		if !ok {
			return nil, nil
		}
		out := []interface{}{}
		for _, e := range a {
			c, err := ev.Eval(n.Children[2], e)
			if err != nil {
				return nil, err
			}
			if isInternal(c) {
				return nil, ErrGap
			}
			if !Truthy(c) {
				continue
			}
			x, err := ev.Eval(n.Children[1], e)
			if err != nil {
				return nil, err
			}
			if x != nil {
				out = append(out, x)
			}
		}
		return out, nil
	case NOr, NAnd:
		l, err := ev.Eval(n.Children[0], v)
		if err != nil {
			return nil, err
		}
		if _, ok := l.(*Closure); ok {
			return nil, ErrGap
		}
		if Truthy(l) == (n.Type == NOr) {
			return l, nil
		}
		return ev.Eval(n.Children[1], v)
	case NNot:
		l, err := ev.Eval(n.Children[0], v)
		if err != nil {
			return nil, err
		}
		if _, ok := l.(*Closure); ok {
			return nil, ErrGap
		}
		return !Truthy(l), nil
	case NCmp:
		l, err := ev.Eval(n.Children[0], v)
		if err != nil {
			return nil, err
		}
		r, err := ev.Eval(n.Children[1], v)
		if err != nil {
			return nil, err
		}
		if isInternal(l) || isInternal(r) {
			return nil, ErrGap
		}
		switch n.Name {
		case "==":
			return DeepEqual(l, r), nil
		case "!=":
			return !DeepEqual(l, r), nil
		}
		lf, lok := l.(float64)
		rf, rok := r.(float64)
		if !lok || !rok {
			return nil, nil
		}
		switch n.Name {
		case "<":
			return lf < rf, nil
		case "<=":
			return lf <= rf, nil
		case ">":
			return lf > rf, nil
		case ">=":
			return lf >= rf, nil
		}
		return nil, ErrGap
	case NMultiList:
		if v == nil {
			return nil, nil
		}
		out := make([]interface{}, 0, len(n.Children))
		for _, c := range n.Children {
			x, err := ev.Eval(c, v)
			if err != nil {
				return nil, err
			}
			out = append(out, x)
		}
		return out, nil
	case NMultiHash:
		if v == nil {
			return nil, nil
		}
		out := map[string]interface{}{}
		for _, c := range n.Children {
			x, err := ev.Eval(c.Children[0], v)
			if err != nil {
				return nil, err
			}
			out[c.Name] = x
		}
		return out, nil
	case NExpRef:
		return &Closure{n.Children[0]}, nil
	case NFunction:
		args := make([]interface{}, 0, len(n.Children))
		for _, c := range n.Children {
			x, err := ev.Eval(c, v)
			if err != nil {
				return nil, err
			}
			args = append(args, x)
		}
		return ev.call(n.Name, args)
	}
	return nil, ErrGap
}

// SliceIndices is Python extended-slice selection (CPython PySlice_AdjustIndices):
// the indices selected from a sequence of length n.
func SliceIndices(n int, a, b, c *int64) ([]int, error) {
	step := int64(1)
	if c != nil {
		step = *c
	}
	if step == 0 {
		return nil, ErrEval
	}
	ln := int64(n)
	var lo, hi int64
	if step > 0 {
		lo, hi = 0, ln
	} else {
		lo, hi = -1, ln-1
	}
	clamp := func(x int64) int64 {
		if x < 0 {
			x += ln // no overflow: negative + non-negative
			if x < lo {
				return lo
			}
			return x
		}
		if x > hi {
			return hi
		}
		return x
	}
	var start, stop int64
	if a == nil {
		if step > 0 {
			start = lo
		} else {
			start = hi
		}
	} else {
		start = clamp(*a)
	}
	if b == nil {
		if step > 0 {
			stop = hi
		} else {
			stop = lo
		}
	} else {
		stop = clamp(*b)
	}
	var count int64
	if step > 0 {
		if stop > start {
			d := stop - start
			if step >= d {
				count = 1
			} else {
				count = (d + step - 1) / step
			}
		}
	} else {
		if start > stop {
			d := start - stop
			if step <= -d {
				count = 1
			} else {
				count = (d + (-step) - 1) / (-step)
			}
		}
	}
	out := make([]int, 0, count)
	for k := int64(0); k < count; k++ {
		out = append(out, int(start+k*step))
	}
	return out, nil
}

// ---------- functions ----------

type argType uint8

const (
	tNum argType = 1 << iota
	tStr
	tArr
	tObj
	tArrNum
	tArrStr
	tRef
	tAny
)

type sig struct {
	args     []argType
	variadic bool
}

var sigs = map[string]sig{
	"abs": {[]argType{tNum}, false}, "ceil": {[]argType{tNum}, false}, "floor": {[]argType{tNum}, false},
	"avg": {[]argType{tArrNum}, false}, "sum": {[]argType{tArrNum}, false},
	"contains":    {[]argType{tArr | tStr, tAny}, false},
	"starts_with": {[]argType{tStr, tStr}, false}, "ends_with": {[]argType{tStr, tStr}, false},
	"join": {[]argType{tStr, tArrStr}, false},
	"keys": {[]argType{tObj}, false}, "values": {[]argType{tObj}, false},
	"length": {[]argType{tStr | tArr | tObj}, false},
	"map":    {[]argType{tRef, tArr}, false},
	"max":    {[]argType{tArrNum | tArrStr}, false}, "min": {[]argType{tArrNum | tArrStr}, false},
	"max_by": {[]argType{tArr, tRef}, false}, "min_by": {[]argType{tArr, tRef}, false},
	"sort": {[]argType{tArrNum | tArrStr}, false}, "sort_by": {[]argType{tArr, tRef}, false},
	"merge": {[]argType{tObj}, true}, "not_null": {[]argType{tAny}, true},
	"reverse": {[]argType{tArr | tStr}, false},
	"to_array": {[]argType{tAny}, false}, "to_string": {[]argType{tAny}, false},
	"to_number": {[]argType{tAny}, false}, "type": {[]argType{tAny}, false},
}

// FunctionNames lists the 26 built-ins.
func FunctionNames() []string {
	out := make([]string, 0, len(sigs))
	for k := range sigs {
		out = append(out, k)
	}
	sort.Strings(out)
	return out
}

// Signature returns the number of declared parameters and whether the last is variadic.
func Signature(name string) (n int, variadic bool, ok bool) {
	s, ok := sigs[name]
	return len(s.args), s.variadic, ok
}

func allOf(a []interface{}, pred func(interface{}) bool) bool {
	for _, e := range a {
		if !pred(e) {
			return false
		}
	}
	return true
}
func isNum(v interface{}) bool { _, ok := v.(float64); return ok }
func isStr(v interface{}) bool { _, ok := v.(string); return ok }

// typeOK: 1 ok, 0 type error, -1 gap (expref or TextOf in a position typed any / string).
func typeOK(t argType, v interface{}) int {
	if _, ok := v.(*Closure); ok {
		if t&tRef != 0 {
			return 1
		}
		if t&tAny != 0 {
			return -1 // gap G11
		}
		return 0
	}
	if _, ok := v.(TextOf); ok {
		if t&tAny != 0 {
			return 1
		}
		if t&tStr != 0 {
			return -1 // a string whose exact text is unspecified is inspected
		}
		return 0
	}
	if t&tAny != 0 {
		return 1
	}
	switch x := v.(type) {
	case float64:
		if t&tNum != 0 {
			return 1
		}
	case string:
		if t&tStr != 0 {
			return 1
		}
	case map[string]interface{}:
		if t&tObj != 0 {
			return 1
		}
	case []interface{}:
		if t&tArr != 0 {
			return 1
		}
		if t&tArrNum != 0 && allOf(x, isNum) {
			return 1
		}
		if t&tArrStr != 0 && allOf(x, isStr) {
			return 1
		}
		if t&(tArrNum|tArrStr) != 0 {
			for _, e := range x {
				if _, ok := e.(TextOf); ok {
					return -1
				}
			}
		}
	}
	return 0
}

func (ev *Eval) call(name string, args []interface{}) (interface{}, error) {
	s, ok := sigs[name]
	if !ok {
		return nil, ErrEval
	}
	if s.variadic {
		if len(args) < len(s.args) {
			return nil, ErrEval
		}
	} else if len(args) != len(s.args) {
		return nil, ErrEval
	}
	gap := false
	for i, a := range args {
		t := s.args[len(s.args)-1]
		if i < len(s.args) {
			t = s.args[i]
		}
		switch typeOK(t, a) {
		case 0:
			return nil, ErrEval
		case -1:
			if _, isRef := a.(*Closure); isRef && (name == "type" || name == "to_number") {
				// gap G11 narrowed: these two must classify their argument, and an expression
				// reference is none of the JSON types, so "a value is required" here (C10)
				return nil, ErrEval
			}
			gap = true
		}
	}
	if gap {
		return nil, ErrGap
	}
	switch name {
	case "abs":
		return math.Abs(args[0].(float64)), nil
	case "ceil":
		return math.Ceil(args[0].(float64)), nil
	case "floor":
		return math.Floor(args[0].(float64)), nil
	case "avg", "sum":
		a := args[0].([]interface{})
		total := 0.0
		for _, e := range a {
			total += e.(float64)
		}
		if name == "sum" {
			return total, nil
		}
		if len(a) == 0 {
			return nil, nil
		}
		return total / float64(len(a)), nil
	case "contains":
		if s, ok := args[0].(string); ok {
			if t, ok := args[1].(string); ok {
				return strings.Contains(s, t), nil
			}
			if _, ok := args[1].(TextOf); ok {
				return nil, ErrGap
			}
			return false, nil
		}
		for _, e := range args[0].([]interface{}) {
			if isInternal(e) || isInternal(args[1]) {
				return nil, ErrGap
			}
			if DeepEqual(e, args[1]) {
				return true, nil
			}
		}
		return false, nil
	case "starts_with":
		return strings.HasPrefix(args[0].(string), args[1].(string)), nil
	case "ends_with":
		return strings.HasSuffix(args[0].(string), args[1].(string)), nil
	case "join":
		parts := []string{}
		for _, e := range args[1].([]interface{}) {
			parts = append(parts, e.(string))
		}
		return strings.Join(parts, args[0].(string)), nil
	case "keys":
		out := []interface{}{}
		for _, k := range ev.order(args[0].(map[string]interface{})) {
			out = append(out, k)
		}
		return out, nil
	case "values":
		m := args[0].(map[string]interface{})
		out := []interface{}{}
		for _, k := range ev.order(m) {
			out = append(out, m[k])
		}
		return out, nil
	case "length":
		switch x := args[0].(type) {
		case string:
			return float64(len([]rune(x))), nil
		case []interface{}:
			return float64(len(x)), nil
		case map[string]interface{}:
			return float64(len(x)), nil
		}
	case "map":
		cl := args[0].(*Closure)
		out := []interface{}{}
		for _, e := range args[1].([]interface{}) {
			x, err := ev.Eval(cl.Node, e)
			if err != nil {
				return nil, err
			}
			out = append(out, x)
		}
		return out, nil
	case "max", "min":
		a := args[0].([]interface{})
		if len(a) == 0 {
			return nil, nil
		}
		best := a[0]
		for _, e := range a[1:] {
			if name == "max" && less(best, e) {
				best = e
			}
			if name == "min" && less(e, best) {
				best = e
			}
		}
		return best, nil
	case "sort":
		a := append([]interface{}{}, args[0].([]interface{})...)
		sort.SliceStable(a, func(i, j int) bool { return less(a[i], a[j]) })
		return a, nil
	case "max_by", "min_by", "sort_by":
		a := args[0].([]interface{})
		cl := args[1].(*Closure)
		keys := make([]interface{}, len(a))
		for i, e := range a {
			k, err := ev.Eval(cl.Node, e)
			if err != nil {
				return nil, err
			}
			if _, ok := k.(TextOf); ok {
				return nil, ErrGap
			}
			keys[i] = k
		}
		if !(allOf(keys, isNum) || allOf(keys, isStr)) {
			return nil, ErrEval
		}
		if name == "sort_by" {
			idx := make([]int, len(a))
			for i := range idx {
				idx[i] = i
			}
			sort.SliceStable(idx, func(i, j int) bool { return less(keys[idx[i]], keys[idx[j]]) })
			out := make([]interface{}, len(a))
			for i, j := range idx {
				out[i] = a[j]
			}
			return out, nil
		}
		if len(a) == 0 {
			return nil, nil
		}
		best := 0
		for i := 1; i < len(a); i++ {
			if name == "max_by" && less(keys[best], keys[i]) {
				best = i
			}
			if name == "min_by" && less(keys[i], keys[best]) {
				best = i
			}
		}
		return a[best], nil
	case "merge":
		out := map[string]interface{}{}
		for _, a := range args {
			for k, v := range a.(map[string]interface{}) {
				out[k] = v
			}
		}
		return out, nil
	case "not_null":
		for _, a := range args {
			if a != nil {
				return a, nil
			}
		}
		return nil, nil
	case "reverse":
		if s, ok := args[0].(string); ok {
			r := []rune(s)
			out := make([]rune, len(r))
			for i, c := range r {
				out[len(r)-1-i] = c
			}
			return string(out), nil
		}
		a := args[0].([]interface{})
		out := make([]interface{}, len(a))
		for i, e := range a {
			out[len(a)-1-i] = e
		}
		return out, nil
	case "to_array":
		if a, ok := args[0].([]interface{}); ok {
			return a, nil
		}
		return []interface{}{args[0]}, nil
	case "to_string":
		switch x := args[0].(type) {
		case string:
			return x, nil
		case TextOf:
			return x, nil
		}
		return TextOf{args[0]}, nil
	case "to_number":
		switch x := args[0].(type) {
		case float64:
			return x, nil
		case TextOf:
			return nil, ErrGap
		case string:
			switch ClassifyNumberString(x) {
			case NumJSON:
				f, err := strconv.ParseFloat(x, 64)
				if err != nil || math.IsInf(f, 0) {
					return nil, ErrGap
				}
				return f, nil
			case NumNone:
				return nil, nil
			}
			return nil, ErrGap // gap G5
		}
		return nil, nil
	case "type":
		switch args[0].(type) {
		case nil:
			return "null", nil
		case bool:
			return "boolean", nil
		case float64:
			return "number", nil
		case string, TextOf:
			return "string", nil
		case []interface{}:
			return "array", nil
		case map[string]interface{}:
			return "object", nil
		}
	}
	return nil, ErrGap
}

// less orders two numbers numerically or two strings by code point.
func less(a, b interface{}) bool {
	switch x := a.(type) {
	case float64:
		return x < b.(float64)
	case string:
		return x < b.(string) // byte order of UTF-8 is code point order
	}
	return false
}

// Number-string classes for to_number (gap G5).
const (
	NumJSON = iota // matches JSON's number grammar: the result must be that number
	NumNone        // contains no digit: the result must be null
	NumGap         // anything else: null or a finite number, no further verdict
)

// ClassifyNumberString classifies a to_number string argument.
func ClassifyNumberString(s string) int {
	if isJSONNumber(s) {
		return NumJSON
	}
	for i := 0; i < len(s); i++ {
		if s[i] >= '0' && s[i] <= '9' {
			return NumGap
		}
	}
	return NumNone
}

func isJSONNumber(s string) bool {
	i := 0
	n := len(s)
	if i < n && s[i] == '-' {
		i++
	}
	if i >= n {
		return false
	}
	if s[i] == '0' {
		i++
	} else if s[i] >= '1' && s[i] <= '9' {
		for i < n && s[i] >= '0' && s[i] <= '9' {
			i++
		}
	} else {
		return false
	}
	if i < n && s[i] == '.' {
		i++
		st := i
		for i < n && s[i] >= '0' && s[i] <= '9' {
			i++
		}
		if i == st {
			return false
		}
	}
	if i < n && (s[i] == 'e' || s[i] == 'E') {
		i++
		if i < n && (s[i] == '+' || s[i] == '-') {
			i++
		}
		st := i
		for i < n && s[i] >= '0' && s[i] <= '9' {
			i++
		}
		if i == st {
			return false
		}
	}
	return i == n
}
