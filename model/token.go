// Package model is the independent reference model of JMESPath used by the
// verification checks: token alphabet, grammar recogniser G, canonical
// precedence parser P, evaluator E with the 26 built-ins, Python slice
// arithmetic. It shares no code with /repo.
package model

import "strings"

// Kind is a token kind.
type Kind uint8

const (
	STAR Kind = iota
	DOT
	FILTER   // [?
	FLATTEN  // []
	LPAREN
	RPAREN
	LBRACKET
	RBRACKET
	LBRACE
	RBRACE
	OR   // ||
	PIPE // |
	NUM
	UID // unquoted identifier
	QID // quoted identifier
	COMMA
	COLON
	CMP // == != < <= > >=
	LIT // `json`
	RAW // 'raw'
	CUR // @
	AMP // &
	AND // &&
	NOT // !
	EOF
	NKinds
)

var kindNames = [...]string{"STAR", "DOT", "FILTER", "FLATTEN", "LPAREN", "RPAREN", "LBRACKET", "RBRACKET",
	"LBRACE", "RBRACE", "OR", "PIPE", "NUM", "UID", "QID", "COMMA", "COLON", "CMP", "LIT", "RAW", "CUR",
	"AMP", "AND", "NOT", "EOF"}

func (k Kind) String() string { return kindNames[k] }

// ImplName is the name the implementation's tokType stringer gives to a model
// token (used only to confirm, through the VerifTokens hook, that a spelling
// is lexed as the intended token sequence).
func (t Tok) ImplName() string {
	switch t.Kind {
	case STAR:
		return "tStar"
	case DOT:
		return "tDot"
	case FILTER:
		return "tFilter"
	case FLATTEN:
		return "tFlatten"
	case LPAREN:
		return "tLparen"
	case RPAREN:
		return "tRparen"
	case LBRACKET:
		return "tLbracket"
	case RBRACKET:
		return "tRbracket"
	case LBRACE:
		return "tLbrace"
	case RBRACE:
		return "tRbrace"
	case OR:
		return "tOr"
	case PIPE:
		return "tPipe"
	case NUM:
		return "tNumber"
	case UID:
		return "tUnquotedIdentifier"
	case QID:
		return "tQuotedIdentifier"
	case COMMA:
		return "tComma"
	case COLON:
		return "tColon"
	case CMP:
		switch t.Text {
		case "==":
			return "tEQ"
		case "!=":
			return "tNE"
		case "<":
			return "tLT"
		case "<=":
			return "tLTE"
		case ">":
			return "tGT"
		case ">=":
			return "tGTE"
		}
	case LIT:
		return "tJSONLiteral"
	case RAW:
		return "tStringLiteral"
	case CUR:
		return "tCurrent"
	case AMP:
		return "tExpref"
	case AND:
		return "tAnd"
	case NOT:
		return "tNot"
	case EOF:
		return "tEOF"
	}
	return "?"
}

// Tok is a token: a kind and its concrete spelling.
type Tok struct {
	Kind Kind
	Text string
}

// T is a shorthand constructor.
func T(k Kind, text string) Tok { return Tok{k, text} }

var fixedText = map[Kind]string{STAR: "*", DOT: ".", FILTER: "[?", FLATTEN: "[]", LPAREN: "(", RPAREN: ")",
	LBRACKET: "[", RBRACKET: "]", LBRACE: "{", RBRACE: "}", OR: "||", PIPE: "|", COMMA: ",", COLON: ":",
	CUR: "@", AMP: "&", AND: "&&", NOT: "!"}

// Fixed returns the token of a kind that has only one spelling.
func Fixed(k Kind) Tok { return Tok{k, fixedText[k]} }

// Style is a whitespace rendering style.
type Style int

const (
	Tight Style = iota
	Spaced
	Wild
)

func isWordByte(c byte) bool {
	return c == '_' || (c >= '0' && c <= '9') || (c >= 'a' && c <= 'z') || (c >= 'A' && c <= 'Z')
}

// fuses reports whether writing b directly after a (no blank) would make the
// lexer see something other than the two tokens.
func fuses(a, b Tok) bool {
	la := a.Text[len(a.Text)-1]
	fb := b.Text[0]
	switch a.Kind {
	case UID:
		return isWordByte(fb)
	case NUM:
		return fb >= '0' && fb <= '9'
	case LBRACKET:
		// "[" + "]" = flatten, "[" + "?" can not start a token; only RBRACKET matters
		return fb == ']' || fb == '?'
	case PIPE:
		return fb == '|'
	case AMP:
		return fb == '&'
	case NOT:
		return fb == '='
	case CMP:
		if la == '<' || la == '>' {
			return fb == '='
		}
	}
	return false
}

var wildBlanks = []string{" ", "\t", "\n", "\r", "  ", " \t\r\n", ""}

// Spell renders a token sequence as expression text.
func Spell(toks []Tok, style Style) string {
	var b strings.Builder
	if style == Wild {
		b.WriteString("\t ")
	}
	for i, t := range toks {
		if t.Kind == EOF {
			continue
		}
		if i > 0 {
			switch style {
			case Tight:
				if fuses(toks[i-1], t) {
					b.WriteByte(' ')
				}
			case Spaced:
				b.WriteByte(' ')
			case Wild:
				w := wildBlanks[i%len(wildBlanks)]
				if w == "" && fuses(toks[i-1], t) {
					w = "\n"
				}
				b.WriteString(w)
			}
		}
		b.WriteString(t.Text)
	}
	if style == Wild {
		b.WriteString("\r\n")
	}
	return b.String()
}
