package model

import (
	"encoding/json"
	"fmt"
	"math"
	"reflect"
	"sort"
	"strconv"
	"strings"
)

// Canon renders a model value canonically (sorted keys); internal values are marked.
func Canon(v interface{}) string {
	var b strings.Builder
	canon(&b, v, 0)
	return b.String()
}

func canon(b *strings.Builder, v interface{}, depth int) {
	if depth > 200 {
		b.WriteString("<nested deeper than 200 levels (cyclic?)>")
		return
	}
	switch x := v.(type) {
	case nil:
		b.WriteString("null")
	case bool:
		if x {
			b.WriteString("true")
		} else {
			b.WriteString("false")
		}
	case float64:
		b.WriteString(strconv.FormatFloat(x, 'g', -1, 64))
	case string:
		b.WriteString(strconv.Quote(x))
	case []interface{}:
		b.WriteByte('[')
		for i, e := range x {
			if i > 0 {
				b.WriteByte(',')
			}
			canon(b, e, depth+1)
		}
		b.WriteByte(']')
	case map[string]interface{}:
		keys := make([]string, 0, len(x))
		for k := range x {
			keys = append(keys, k)
		}
		sort.Strings(keys)
		b.WriteByte('{')
		for i, k := range keys {
			if i > 0 {
				b.WriteByte(',')
			}
			b.WriteString(strconv.Quote(k))
			b.WriteByte(':')
			canon(b, x[k], depth+1)
		}
		b.WriteByte('}')
	case *Closure:
		b.WriteString("<expref>")
	case TextOf:
		b.WriteString("<text-of ")
		canon(b, x.V, depth+1)
		b.WriteByte('>')
	case Bomb:
		b.WriteString("<bomb>")
	default:
		fmt.Fprintf(b, "<go %T %v>", v, v)
	}
}

// NumClose compares numbers up to a relative tolerance far below anything the
// universes can distinguish (so a different but correct summation order is accepted).
func NumClose(a, b float64) bool {
	if a == b {
		return true
	}
	if math.IsNaN(a) || math.IsNaN(b) || math.IsInf(a, 0) || math.IsInf(b, 0) {
		return false
	}
	return math.Abs(a-b) <= 1e-12*math.Max(1, math.Max(math.Abs(a), math.Abs(b)))
}

// Match reports whether an implementation result (arbitrary Go value) is the
// model value want. Nil-ness of empty containers is left to C16; a TextOf is
// matched by any string that decodes to its value.
func Match(got, want interface{}) bool {
	switch w := want.(type) {
	case nil:
		return got == nil
	case bool:
		g, ok := got.(bool)
		return ok && g == w
	case float64:
		g, ok := got.(float64)
		return ok && NumClose(g, w)
	case string:
		g, ok := got.(string)
		return ok && g == w
	case TextOf:
		g, ok := got.(string)
		if !ok {
			return false
		}
		var dec interface{}
		if err := json.Unmarshal([]byte(g), &dec); err != nil {
			return false
		}
		return Match(dec, w.V)
	case []interface{}:
		g, ok := got.([]interface{})
		if !ok || len(g) != len(w) {
			return false
		}
		for i := range w {
			if !Match(g[i], w[i]) {
				return false
			}
		}
		return true
	case map[string]interface{}:
		g, ok := got.(map[string]interface{})
		if !ok || len(g) != len(w) {
			return false
		}
		for k, wv := range w {
			gv, ok := g[k]
			if !ok || !Match(gv, wv) {
				return false
			}
		}
		return true
	}
	return false
}

// Show renders an arbitrary implementation result for reports.
func Show(v interface{}) string {
	if v == nil {
		return "null"
	}
	switch v.(type) {
	case bool, float64, string, []interface{}, map[string]interface{}:
		if js, err := json.Marshal(v); err == nil {
			return string(js)
		}
	}
	rv := reflect.ValueOf(v)
	return fmt.Sprintf("<go %s %+v>", rv.Type(), v)
}

// Copy deep-copies a JSON value.
func Copy(v interface{}) interface{} {
	switch x := v.(type) {
	case []interface{}:
		out := make([]interface{}, len(x))
		for i, e := range x {
			out[i] = Copy(e)
		}
		return out
	case map[string]interface{}:
		out := make(map[string]interface{}, len(x))
		for k, e := range x {
			out[k] = Copy(e)
		}
		return out
	}
	return v
}

// LiteralText spells a JSON value as a backtick literal.
func LiteralText(v interface{}) string {
	js, err := json.Marshal(v)
	if err != nil {
		panic(err)
	}
	return "`" + strings.Replace(string(js), "`", "\\`", -1) + "`"
}
