package model

import (
	"encoding/json"
	"errors"
	"fmt"
	"strconv"
	"strings"
)

// NodeType of the model AST.
type NodeType uint8

const (
	NField NodeType = iota
	NIdentity       // also "current node" (@)
	NLiteral
	NSub            // left . right
	NIndexExpr      // left [index-or-slice]
	NIndex
	NSlice
	NPipe
	NOr
	NAnd
	NNot
	NCmp
	NFlatten
	NProjection      // list projection: children left, right
	NValueProjection // object projection
	NFilterProjection // children left, right, condition
	NMultiList
	NMultiHash // children are NKeyVal
	NKeyVal
	NFunction
	NExpRef
)

var nodeNames = [...]string{"Field", "Identity", "Literal", "Subexpression", "IndexExpression", "Index", "Slice",
	"Pipe", "OrExpression", "AndExpression", "NotExpression", "Comparator", "Flatten", "Projection",
	"ValueProjection", "FilterProjection", "MultiSelectList", "MultiSelectHash", "KeyValPair",
	"FunctionExpression", "ExpRef"}

func (t NodeType) String() string { return nodeNames[t] }

// Node is a model AST node.
type Node struct {
	Type     NodeType
	Name     string      // field name, function name, hash key, comparator
	Value    interface{} // literal value
	Index    int
	Slice    [3]*int64 // start, stop, step (big numerals are rejected by P, gap G2)
	Children []*Node
	Lo, Hi   int  // token span [Lo,Hi) in the parsed sequence
	Curr     bool // identity written as "@"
}

// ErrBigNumber marks a numeral outside the int64 range (gap G2: no verdict).
var ErrBigNumber = errors.New("numeral out of range")

// Parser is the canonical precedence parser P.
type Parser struct {
	toks []Tok
	pos  int
	// dotStar is the power with which the right-hand side of "X.*" is parsed: the
	// wildcard's own 20 by the precedence rules; 40 (the dot's) in the de-facto
	// variant shared by the existing implementations (known finding, DESIGN 10.3).
	dotStar int
	// listAfterProj admits a multi-select list directly after a projection ("*[a]"),
	// as the existing implementations do (known finding, not grammatical).
	listAfterProj bool
	// StrictExpRef is set by Parse: true iff every expression reference is
	// directly a function argument (i.e. the sentence is in L(G_strict)).
	StrictExpRef bool
}

var lbp = [NKinds]int{PIPE: 1, OR: 2, AND: 3, CMP: 5, FLATTEN: 9, STAR: 20, FILTER: 21, DOT: 40, NOT: 45,
	LBRACE: 50, LBRACKET: 55, LPAREN: 60}

type parseError struct{ msg string }

func (e parseError) Error() string { return e.msg }

func (p *Parser) fail(format string, a ...interface{}) {
	panic(parseError{fmt.Sprintf(format, a...)})
}

// Parse parses a token sequence (without EOF).
func Parse(toks []Tok) (n *Node, strictExpRef bool, err error) { return parseWith(toks, 20) }

// ParseDeFacto parses with the irregularity of the existing implementations: the
// right-hand side of "X.*" is parsed with the dot's binding power, so that
// "X.*.Y.Z" groups as "(X.*.Y).Z" and "X.*.Y[?c]" filters the collected list.
func ParseDeFacto(toks []Tok) (n *Node, strictExpRef bool, err error) { return parseWith(toks, 40) }

// ParseListAfterProjection parses with the second known irregularity: a
// multi-select list may directly continue a projection ("*[a]" = "*.[a]").
func ParseListAfterProjection(toks []Tok) (n *Node, strictExpRef bool, err error) {
	return parseVariant(toks, 20, true)
}

func parseWith(toks []Tok, dotStar int) (n *Node, strictExpRef bool, err error) {
	return parseVariant(toks, dotStar, false)
}

func parseVariant(toks []Tok, dotStar int, listAfterProj bool) (n *Node, strictExpRef bool, err error) {
	p := &Parser{toks: append(append([]Tok{}, toks...), Tok{EOF, ""}), dotStar: dotStar, listAfterProj: listAfterProj}
	defer func() {
		if r := recover(); r != nil {
			if pe, ok := r.(parseError); ok {
				n, err = nil, pe
				return
			}
			if r == ErrBigNumber {
				n, err = nil, ErrBigNumber
				return
			}
			panic(r)
		}
	}()
	n = p.expr(0)
	if p.cur().Kind != EOF {
		p.fail("trailing token %s", p.cur().Kind)
	}
	p.StrictExpRef = true
	p.checkExpRefs(n, false)
	return n, p.StrictExpRef, nil
}

func (p *Parser) checkExpRefs(n *Node, argPos bool) {
	if n.Type == NExpRef && !argPos {
		p.StrictExpRef = false
	}
	for _, c := range n.Children {
		p.checkExpRefs(c, n.Type == NFunction)
	}
}

func (p *Parser) cur() Tok         { return p.toks[p.pos] }
func (p *Parser) peek(k int) Tok {
	if p.pos+k >= len(p.toks) {
		return Tok{EOF, ""}
	}
	return p.toks[p.pos+k]
}
func (p *Parser) expect(k Kind) {
	if p.cur().Kind != k {
		p.fail("expected %s, got %s", k, p.cur().Kind)
	}
	p.pos++
}

func (p *Parser) expr(rbp int) *Node {
	lo := p.pos
	left := p.nud()
	left.Lo = lo
	left.Hi = p.pos
	for rbp < lbp[p.cur().Kind] {
		left = p.led(left)
		left.Lo = lo
		left.Hi = p.pos
	}
	return left
}

func identity() *Node { return &Node{Type: NIdentity} }

func (p *Parser) number() int64 {
	t := p.cur()
	if t.Kind != NUM {
		p.fail("expected number")
	}
	s := t.Text
	digits := s
	if strings.HasPrefix(digits, "-") {
		digits = digits[1:]
	}
	if digits == "" {
		p.fail("bare minus")
	}
	for _, c := range digits {
		if c < '0' || c > '9' {
			p.fail("bad number")
		}
	}
	v, err := strconv.ParseInt(s, 10, 64)
	if err != nil {
		panic(ErrBigNumber)
	}
	p.pos++
	return v
}

// bracketIndex parses after LBRACKET when the next token is NUM or COLON.
func (p *Parser) bracketIndex(left *Node) *Node {
	if p.cur().Kind == NUM && p.peek(1).Kind == RBRACKET {
		v := p.number()
		p.expect(RBRACKET)
		if int64(int(v)) != v {
			panic(ErrBigNumber)
		}
		idx := &Node{Type: NIndex, Index: int(v)}
		return &Node{Type: NIndexExpr, Children: []*Node{left, idx}}
	}
	// slice: NUM? COLON NUM? (COLON NUM?)?
	sl := &Node{Type: NSlice}
	if p.cur().Kind == NUM {
		v := p.number()
		sl.Slice[0] = &v
	}
	p.expect(COLON)
	if p.cur().Kind == NUM {
		v := p.number()
		sl.Slice[1] = &v
	}
	if p.cur().Kind == COLON {
		p.pos++
		if p.cur().Kind == NUM {
			v := p.number()
			sl.Slice[2] = &v
		}
	}
	p.expect(RBRACKET)
	ie := &Node{Type: NIndexExpr, Children: []*Node{left, sl}}
	return &Node{Type: NProjection, Children: []*Node{ie, p.projRHS(20)}}
}

func (p *Parser) nud() *Node {
	t := p.cur()
	p.pos++
	switch t.Kind {
	case LIT:
		var v interface{}
		if err := json.Unmarshal([]byte(strings.Replace(t.Text[1:len(t.Text)-1], "\\`", "`", -1)), &v); err != nil {
			p.fail("bad literal")
		}
		return &Node{Type: NLiteral, Value: v}
	case RAW:
		return &Node{Type: NLiteral, Value: RawValue(t.Text)}
	case UID:
		return &Node{Type: NField, Name: t.Text}
	case QID:
		var s string
		if err := json.Unmarshal([]byte(t.Text), &s); err != nil {
			p.fail("bad quoted identifier")
		}
		if p.cur().Kind == LPAREN {
			p.fail("quoted identifier as function name")
		}
		return &Node{Type: NField, Name: s}
	case CUR:
		return &Node{Type: NIdentity, Curr: true}
	case STAR:
		return &Node{Type: NValueProjection, Children: []*Node{identity(), p.projRHS(20)}}
	case FILTER:
		return p.filter(identity())
	case FLATTEN:
		fl := &Node{Type: NFlatten, Children: []*Node{identity()}}
		return &Node{Type: NProjection, Children: []*Node{fl, p.projRHS(9)}}
	case LBRACE:
		return p.hash()
	case LPAREN:
		e := p.expr(0)
		p.expect(RPAREN)
		return e
	case NOT:
		return &Node{Type: NNot, Children: []*Node{p.expr(45)}}
	case AMP:
		return &Node{Type: NExpRef, Children: []*Node{p.expr(0)}}
	case LBRACKET:
		k := p.cur().Kind
		if k == NUM || k == COLON {
			return p.bracketIndex(identity())
		}
		if k == STAR && p.peek(1).Kind == RBRACKET {
			p.pos += 2
			return &Node{Type: NProjection, Children: []*Node{identity(), p.projRHS(20)}}
		}
		return p.list()
	}
	p.fail("unexpected token %s", t.Kind)
	return nil
}

func (p *Parser) led(left *Node) *Node {
	t := p.cur()
	p.pos++
	switch t.Kind {
	case DOT:
		if p.cur().Kind == STAR {
			p.pos++
			return &Node{Type: NValueProjection, Children: []*Node{left, p.projRHS(p.dotStar)}}
		}
		return &Node{Type: NSub, Children: []*Node{left, p.dotRHS(40)}}
	case PIPE:
		return &Node{Type: NPipe, Children: []*Node{left, p.expr(1)}}
	case OR:
		return &Node{Type: NOr, Children: []*Node{left, p.expr(2)}}
	case AND:
		return &Node{Type: NAnd, Children: []*Node{left, p.expr(3)}}
	case CMP:
		return &Node{Type: NCmp, Name: t.Text, Children: []*Node{left, p.expr(5)}}
	case FLATTEN:
		fl := &Node{Type: NFlatten, Children: []*Node{left}}
		return &Node{Type: NProjection, Children: []*Node{fl, p.projRHS(9)}}
	case FILTER:
		return p.filter(left)
	case LBRACKET:
		k := p.cur().Kind
		if k == NUM || k == COLON {
			return p.bracketIndex(left)
		}
		p.expect(STAR)
		p.expect(RBRACKET)
		return &Node{Type: NProjection, Children: []*Node{left, p.projRHS(20)}}
	case LPAREN:
		// callee must be the unquoted identifier token directly before "("
		if left.Type != NField || p.pos < 2 || p.toks[p.pos-2].Kind != UID || left.Hi-left.Lo != 1 {
			p.fail("callee is not an identifier")
		}
		fn := &Node{Type: NFunction, Name: left.Name}
		if p.cur().Kind == RPAREN {
			p.pos++
			return fn
		}
		for {
			fn.Children = append(fn.Children, p.expr(0))
			if p.cur().Kind == COMMA {
				p.pos++
				continue
			}
			p.expect(RPAREN)
			return fn
		}
	}
	p.fail("unexpected infix token %s", t.Kind)
	return nil
}

func (p *Parser) projRHS(power int) *Node {
	k := p.cur().Kind
	switch {
	case lbp[k] < 10:
		return identity()
	case k == LBRACKET:
		// only a bracket specifier may continue a projection (not a multi-select list)
		if n := p.peek(1).Kind; p.listAfterProj || n == NUM || n == COLON || (n == STAR && p.peek(2).Kind == RBRACKET) {
			return p.expr(power)
		}
		p.fail("multi-select list can not continue a projection without a dot")
	case k == FILTER:
		return p.expr(power)
	case k == DOT:
		p.pos++
		return p.dotRHS(power)
	}
	p.fail("bad projection continuation %s", k)
	return nil
}

func (p *Parser) dotRHS(power int) *Node {
	switch p.cur().Kind {
	case UID, QID, STAR:
		return p.expr(power)
	case LBRACKET:
		p.pos++
		return p.list()
	case LBRACE:
		p.pos++
		return p.hash()
	}
	p.fail("bad dot right-hand side %s", p.cur().Kind)
	return nil
}

func (p *Parser) filter(left *Node) *Node {
	cond := p.expr(0)
	p.expect(RBRACKET)
	return &Node{Type: NFilterProjection, Children: []*Node{left, p.projRHS(21), cond}}
}

func (p *Parser) list() *Node {
	n := &Node{Type: NMultiList}
	for {
		n.Children = append(n.Children, p.expr(0))
		if p.cur().Kind == COMMA {
			p.pos++
			continue
		}
		p.expect(RBRACKET)
		return n
	}
}

func (p *Parser) hash() *Node {
	n := &Node{Type: NMultiHash}
	for {
		t := p.cur()
		var key string
		switch t.Kind {
		case UID:
			key = t.Text
		case QID:
			if err := json.Unmarshal([]byte(t.Text), &key); err != nil {
				p.fail("bad quoted key")
			}
		default:
			p.fail("expected hash key")
		}
		p.pos++
		p.expect(COLON)
		v := p.expr(0)
		n.Children = append(n.Children, &Node{Type: NKeyVal, Name: key, Children: []*Node{v}})
		if p.cur().Kind == COMMA {
			p.pos++
			continue
		}
		p.expect(RBRACE)
		return n
	}
}

// RawValue is the string denoted by a raw string literal spelling '...':
// only \' is an escape, every other backslash is literal.
func RawValue(text string) string {
	return strings.Replace(text[1:len(text)-1], `\'`, `'`, -1)
}

// Render prints a model AST in the s-expression syntax of the VerifRenderAST
// hook (identity and current node are one symbol there too: the hook prints
// Identity / CurrentNode; we map both to "Identity" when comparing).
func Render(n *Node) string {
	var b strings.Builder
	render(&b, n)
	return b.String()
}

func render(b *strings.Builder, n *Node) {
	b.WriteByte('(')
	b.WriteString(n.Type.String())
	switch n.Type {
	case NField, NKeyVal, NFunction:
		b.WriteByte(' ')
		b.WriteString(strconv.Quote(n.Name))
	case NCmp:
		b.WriteByte(' ')
		b.WriteString(map[string]string{"==": "tEQ", "!=": "tNE", "<": "tLT", "<=": "tLTE", ">": "tGT", ">=": "tGTE"}[n.Name])
	case NIndex:
		b.WriteByte(' ')
		b.WriteString(strconv.Itoa(n.Index))
	case NSlice:
		b.WriteByte(' ')
		for i, s := range n.Slice {
			if i > 0 {
				b.WriteByte(':')
			}
			if s == nil {
				b.WriteByte('_')
			} else {
				b.WriteString(strconv.FormatInt(*s, 10))
			}
		}
	case NLiteral:
		b.WriteString(" json:")
		switch v := n.Value.(type) {
		case string:
			b.WriteString(strconv.Quote(v))
		case nil:
			b.WriteString("null")
		default:
			js, _ := json.Marshal(v)
			b.Write(js)
		}
	}
	for _, c := range n.Children {
		b.WriteByte(' ')
		render(b, c)
	}
	b.WriteByte(')')
}
