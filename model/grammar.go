package model

// Grammar recogniser G: the JMESPath ABNF as a plain context-free grammar over
// token kinds, decided by a memoised chart (derives(N,i,j)). No precedence is
// involved; ambiguity is irrelevant for membership.
//
//   E        → E DOT SubRHS | E Bracket | Bracket
//            | E CMP E | E OR E | E AND E | E PIPE E | NOT E | LPAREN E RPAREN
//            | Ident | STAR | MSList | MSHash | LIT | RAW | Func | CUR
//   SubRHS   → Ident | MSList | MSHash | Func | STAR
//   Ident    → UID | QID
//   Bracket  → LBRACKET (NUM | STAR | Slice) RBRACKET | FLATTEN | FILTER E RBRACKET
//   Slice    → NUM? COLON NUM? (COLON NUM?)?
//   MSList   → LBRACKET E (COMMA E)* RBRACKET
//   MSHash   → LBRACE KV (COMMA KV)* RBRACE          KV → Ident COLON E
//   Func     → UID LPAREN (Arg (COMMA Arg)*)? RPAREN   Arg → E | AMP E
//   G_liberal = G_strict + (E → AMP E)

type nt uint8

const (
	ntE nt = iota
	ntSubRHS
	ntBracket
	ntSlice
	ntMSList
	ntMSHash
	ntKVs   // KV (COMMA KV)*
	ntFunc
	ntArgs  // Arg (COMMA Arg)*
	ntEList // E (COMMA E)*
	ntCount
)

// Recogniser decides membership of a kind sequence in L(G).
type Recogniser struct {
	Liberal bool
	ks      []Kind
	n       int
	memo    []int8 // 0 unknown, 1 yes, -1 no
}

func (r *Recogniser) idx(n nt, i, j int) int {
	return (int(n)*(r.n+1)+i)*(r.n+1) + j
}

// Accepts reports whether the kind sequence (without EOF) is a sentence.
func (r *Recogniser) Accepts(ks []Kind) bool {
	r.ks = ks
	r.n = len(ks)
	size := int(ntCount) * (r.n + 1) * (r.n + 1)
	if cap(r.memo) < size {
		r.memo = make([]int8, size)
	} else {
		r.memo = r.memo[:size]
		for i := range r.memo {
			r.memo[i] = 0
		}
	}
	if r.n == 0 {
		return false
	}
	return r.d(ntE, 0, r.n)
}

// d: does nonterminal n derive ks[i:j]?
func (r *Recogniser) d(n nt, i, j int) bool {
	if i >= j {
		return false
	}
	ix := r.idx(n, i, j)
	if m := r.memo[ix]; m != 0 {
		return m > 0
	}
	r.memo[ix] = -1 // cycles (there are none on strictly smaller spans) resolve to false
	ok := r.compute(n, i, j)
	if ok {
		r.memo[ix] = 1
	}
	return ok
}

func (r *Recogniser) ident(i, j int) bool {
	return j == i+1 && (r.ks[i] == UID || r.ks[i] == QID)
}

func (r *Recogniser) compute(n nt, i, j int) bool {
	ks := r.ks
	switch n {
	case ntE:
		if j == i+1 {
			switch ks[i] {
			case UID, QID, STAR, LIT, RAW, CUR, FLATTEN:
				return true
			}
			return false
		}
		if r.d(ntBracket, i, j) || r.d(ntMSList, i, j) || r.d(ntMSHash, i, j) || r.d(ntFunc, i, j) {
			return true
		}
		if ks[i] == NOT && r.d(ntE, i+1, j) {
			return true
		}
		if r.Liberal && ks[i] == AMP && r.d(ntE, i+1, j) {
			return true
		}
		if ks[i] == LPAREN && ks[j-1] == RPAREN && r.d(ntE, i+1, j-1) {
			return true
		}
		for k := i + 1; k < j; k++ {
			// E → E Bracket   (E = ks[i:k], Bracket = ks[k:j])
			if r.d(ntBracket, k, j) && r.d(ntE, i, k) {
				return true
			}
			if k+1 < j {
				switch ks[k] {
				case DOT:
					if r.d(ntSubRHS, k+1, j) && r.d(ntE, i, k) {
						return true
					}
				case CMP, OR, AND, PIPE:
					if r.d(ntE, i, k) && r.d(ntE, k+1, j) {
						return true
					}
				}
			}
		}
		return false
	case ntSubRHS:
		if r.ident(i, j) || (j == i+1 && ks[i] == STAR) {
			return true
		}
		return r.d(ntMSList, i, j) || r.d(ntMSHash, i, j) || r.d(ntFunc, i, j)
	case ntBracket:
		if j == i+1 {
			return ks[i] == FLATTEN
		}
		if ks[i] == FILTER {
			return ks[j-1] == RBRACKET && r.d(ntE, i+1, j-1)
		}
		if ks[i] != LBRACKET || ks[j-1] != RBRACKET {
			return false
		}
		if j == i+3 && (ks[i+1] == NUM || ks[i+1] == STAR) {
			return true
		}
		return r.d(ntSlice, i+1, j-1)
	case ntSlice:
		// NUM? COLON NUM? (COLON NUM?)?
		p := i
		if p < j && ks[p] == NUM {
			p++
		}
		if p >= j || ks[p] != COLON {
			return false
		}
		p++
		if p < j && ks[p] == NUM {
			p++
		}
		if p == j {
			return true
		}
		if ks[p] != COLON {
			return false
		}
		p++
		if p < j && ks[p] == NUM {
			p++
		}
		return p == j
	case ntMSList:
		return ks[i] == LBRACKET && ks[j-1] == RBRACKET && r.d(ntEList, i+1, j-1)
	case ntEList:
		if r.d(ntE, i, j) {
			return true
		}
		for k := i + 1; k+1 < j; k++ {
			if ks[k] == COMMA && r.d(ntE, i, k) && r.d(ntEList, k+1, j) {
				return true
			}
		}
		return false
	case ntMSHash:
		return ks[i] == LBRACE && ks[j-1] == RBRACE && r.d(ntKVs, i+1, j-1)
	case ntKVs:
		// KV → Ident COLON E
		if j-i < 3 || !(ks[i] == UID || ks[i] == QID) || ks[i+1] != COLON {
			return false
		}
		if r.d(ntE, i+2, j) {
			return true
		}
		for k := i + 3; k+1 < j; k++ {
			if ks[k] == COMMA && r.d(ntE, i+2, k) && r.d(ntKVs, k+1, j) {
				return true
			}
		}
		return false
	case ntFunc:
		if j-i < 3 || ks[i] != UID || ks[i+1] != LPAREN || ks[j-1] != RPAREN {
			return false
		}
		if j-i == 3 {
			return true
		}
		return r.d(ntArgs, i+2, j-1)
	case ntArgs:
		if r.arg(i, j) {
			return true
		}
		for k := i + 1; k+1 < j; k++ {
			if ks[k] == COMMA && r.arg(i, k) && r.d(ntArgs, k+1, j) {
				return true
			}
		}
		return false
	}
	return false
}

func (r *Recogniser) arg(i, j int) bool {
	if r.d(ntE, i, j) {
		return true
	}
	return j > i+1 && r.ks[i] == AMP && r.d(ntE, i+1, j)
}
